--------------------------- MODULE TaskEngine ---------------------------
(***************************************************************************)
(* snapd's task engine: overlord/state/{taskrunner.go,change.go,task.go}.  *)
(*                                                                         *)
(* One action per critical section under the state lock (each ends in      *)
(* State.Unlock, i.e. a checkpoint):                                       *)
(*   EnsurePass   TaskRunner.Ensure (iterates a Go map: any task order)    *)
(*   Finish       post-handler section of TaskRunner.run's goroutine       *)
(*   UserAbort    Change.Abort (daemon.abortChange: only when not ready)   *)
(*   ResolveWait  restart manager: t.SetStatus(t.WaitedStatus())           *)
(*   Tick         time passes                                              *)
(*   Stop/Restart TaskRunner.Stop; process restart from the checkpoint     *)
(* Change.abortLanes/abortTasks, Change.Status (incl. isChangeWaiting),    *)
(* Task.SetStatus/SetToWait, detectChangeReady/markReady are transcribed   *)
(* at their own grain (status changes applied one by one).                 *)
(*                                                                         *)
(* Properties: C01 C02 C03 C04 (and C07 through Blocked).                  *)
(***************************************************************************)
EXTENDS Integers, Sequences, FiniteSets, TLC

CONSTANTS N,           \* tasks are 1..N
          NC,          \* changes are 1..NC
          MaxFail,     \* handler errors the environment may inject
          MaxRetry,    \* Retry results
          MaxWaitRes,  \* Wait results
          MaxTime,     \* clock bound
          MaxRestart,  \* restarts (crashes) the environment may inject
          MaxAbort     \* user aborts

Tasks == 1..N
Changes == 1..NC

VARIABLES
  \* ---- the graph (fixed after Init; variables so that one run covers all graphs)
  waits,      \* [Tasks -> SUBSET Tasks]   Task.WaitTasks()
  lanes,      \* [Tasks -> Seq(Nat)]       Task.Lanes(), <<0>> when the task joined none
  hasUndo,    \* [Tasks -> BOOLEAN]        an undo handler is registered for the task's kind
  chgOf,      \* [Tasks -> Changes]
  kind,       \* [Tasks -> STRING]         task kind class (C07), "neutral" otherwise
  snap,       \* [Tasks -> Nat]            snap the task is about (C07 hooks)
  \* ---- persisted state
  status,     \* [Tasks -> Status]
  waited,     \* [Tasks -> Status]         waited-status
  atTime,     \* [Tasks -> Nat]            0 = unset
  clean,      \* SUBSET Tasks
  \* ---- volatile
  now,        \* Nat
  running,    \* SUBSET Tasks              tasks with a tomb (handler goroutine in flight)
  rdy,        \* [Changes -> BOOLEAN]      change's ready channel closed (persisted as ready-time)
  stopped,    \* BOOLEAN                   TaskRunner.Stop called
  \* ---- monitors / history
  panicked,   \* BOOLEAN  "change unexpectedly became unready"
  c02bad,     \* BOOLEAN  a handler was started in violation of C02
  redoBad,    \* BOOLEAN  a finished piece of work was started again (C04)
  everDone,   \* SUBSET Tasks: do handler returned ok at least once
  everUndone, \* SUBSET Tasks: undo handler returned ok at least once
  failedDo,   \* SUBSET Tasks: do handler failed
  failedUndo, \* SUBSET Tasks: undo handler failed
  aborted,    \* SUBSET Changes: user abort happened
  budget      \* [fail, retry, wait, restart, abort |-> Nat] used so far

graphVars == <<waits, lanes, hasUndo, chgOf, kind, snap>>
stateVars == <<status, waited, atTime, clean, now, running, rdy, stopped>>
monVars   == <<panicked, c02bad, redoBad, everDone, everUndone, failedDo, failedUndo, aborted, budget>>
vars == <<graphVars, stateVars, monVars>>

Status == {"Do", "Doing", "Done", "Abort", "Undo", "Undoing", "Undone", "Hold", "Error", "Wait"}
IsReadyS(s) == s \in {"Done", "Undone", "Hold", "Error"}

Range(s) == {s[i] : i \in DOMAIN s}
Halts(t) == {u \in Tasks : t \in waits[u]}                 \* Task.HaltTasks()
TasksOf(c) == {t \in Tasks : chgOf[t] = c}

RECURSIVE SetToSeq(_)
SetToSeq(S) == IF S = {} THEN <<>>
               ELSE LET x == CHOOSE y \in S : \A z \in S : y <= z
                    IN <<x>> \o SetToSeq(S \ {x})

-----------------------------------------------------------------------------
(* Change.Status(), isChangeWaiting / isTaskWaiting                         *)

RECURSIVE TaskWaiting(_, _, _, _)
TaskWaiting(st, t, deps, visiting) ==
  LET v2 == visiting \cup {t}
      Sub(d) == IF st[d] = "Do" THEN waits[d] ELSE Halts(d)
      \* the code: recursing into a task that is being computed returns false
      RecTrue(d) == st[d] \in {"Do", "Undo"} /\ d \notin v2 /\ TaskWaiting(st, d, Sub(d), v2)
      FalseDep(d) == \/ st[d] \in {"Doing", "Undoing", "Abort"}
                     \/ st[d] \in {"Do", "Undo"} /\ ~RecTrue(d)
      TrueDep(d) == st[d] = "Wait" \/ RecTrue(d)
  IN (\A d \in deps : ~FalseDep(d)) /\ (\E d \in deps : TrueDep(d))

ChangeWaiting(st, c) ==
  \A t \in TasksOf(c) :
     CASE st[t] \in {"Wait", "Done", "Undone", "Error", "Hold"} -> TRUE
       [] st[t] = "Do"   -> TaskWaiting(st, t, waits[t], {})
       [] st[t] = "Undo" -> TaskWaiting(st, t, Halts(t), {})
       [] OTHER -> FALSE

StatusOrder == <<"Abort", "Undoing", "Undo", "Doing", "Do", "Wait", "Error", "Undone", "Done", "Hold">>

ChgStatus(st, c) ==
  IF TasksOf(c) = {} THEN "Hold"
  ELSE IF (\E t \in TasksOf(c) : st[t] = "Wait") /\ ChangeWaiting(st, c) THEN "Wait"
  ELSE LET i == CHOOSE j \in 1..Len(StatusOrder) :
                   /\ \E t \in TasksOf(c) : st[t] = StatusOrder[j]
                   /\ \A k \in 1..(j-1) : \A t \in TasksOf(c) : st[t] # StatusOrder[k]
       IN StatusOrder[i]

-----------------------------------------------------------------------------
(* Memory record threaded through a critical section:                       *)
(*   m = [st, wd, rdy, pan]                                                 *)

Mem == [st |-> status, wd |-> waited, rdy |-> rdy, pan |-> panicked]

\* Task.changeStatus -> Change.taskStatusChanged -> detectChangeReady / markReady
ChangeStatusOf(m, t, new) ==
  IF m.st[t] = new THEN m
  ELSE LET old == m.st[t]
           st2 == [m.st EXCEPT ![t] = new]
           c   == chgOf[t]
           flip == IsReadyS(old) # IsReadyS(new)
           othersReady == \A u \in TasksOf(c) \ {t} : IsReadyS(st2[u])
       IN IF flip /\ othersReady
          THEN IF m.rdy[c] /\ ~IsReadyS(ChgStatus(st2, c))
               THEN [m EXCEPT !.st = st2, !.pan = TRUE]
               ELSE [m EXCEPT !.st = st2, !.rdy = [m.rdy EXCEPT ![c] = TRUE]]
          ELSE [m EXCEPT !.st = st2]

\* Task.SetStatus
SetSt(m, t, new) ==
  IF new = "Done" /\ m.st[t] = "Abort" THEN m ELSE ChangeStatusOf(m, t, new)

\* Task.SetToWait
SetToWait(m, t, ws) ==
  IF m.st[t] = "Abort" THEN m
  ELSE ChangeStatusOf([m EXCEPT !.wd = [m.wd EXCEPT ![t] = ws]], t, "Wait")

\* taskEffectiveStatus
Eff(m, t) == IF m.st[t] = "Wait" THEN m.wd[t] ELSE m.st[t]
Live(m, t) == Eff(m, t) \in {"Do", "Doing", "Done"}

\* lanes of t inspected by abortLanes before it hits a lane of the kill list (or all of them)
FirstKill(t, L) == IF \E i \in DOMAIN lanes[t] : lanes[t][i] \in L
                   THEN CHOOSE i \in DOMAIN lanes[t] : lanes[t][i] \in L /\ \A j \in 1..(i-1) : lanes[t][j] \notin L
                   ELSE Len(lanes[t]) + 1
OpinionLanes(t, L) == {lanes[t][i] : i \in 1..(FirstKill(t, L) - 1)}

RECURSIVE AbortLanesOp(_, _, _, _, _), AbortTasksLoop(_, _, _, _, _, _, _)

\* Change.abortLanes(lanes, abortedLanes, seenTasks)
AbortLanesOp(m, c, L, al, seen) ==
  LET hasLive(l) == \E t \in TasksOf(c) : l \in OpinionLanes(t, L) /\ Live(m, t)
      hasDead(l) == \E t \in TasksOf(c) : l \in OpinionLanes(t, L) /\ ~Live(m, t)
      laneTasks == {t \in TasksOf(c) : \E i \in DOMAIN lanes[t] : lanes[t][i] \in L}
      exempt(t) == \E l \in Range(lanes[t]) : hasLive(l) /\ ~hasDead(l)
      abortSet == {t \in laneTasks : ~exempt(t)}
      al2 == al \cup L
  IN IF abortSet = {} THEN m
     ELSE AbortTasksLoop(m, c, SetToSeq(abortSet), 1, al2, seen, {})

\* Change.abortTasks(tasks, abortedLanes, seenTasks): work list loop
AbortTasksLoop(m, c, ts, i, al, seen, lacc) ==
  IF i > Len(ts)
  THEN IF lacc = {} THEN m ELSE AbortLanesOp(m, c, lacc, al, seen)
  ELSE LET t == ts[i] IN
       IF t \in seen THEN AbortTasksLoop(m, c, ts, i + 1, al, seen, lacc)
       ELSE LET seen2 == seen \cup {t}
                e == Eff(m, t)
                m2 == CASE e = "Do"    -> SetSt(m, t, "Hold")
                        [] e = "Doing" -> SetSt(m, t, "Abort")
                        [] e = "Done"  -> SetSt(m, t, "Undo")
                        [] OTHER -> m
                lacc2 == IF \E l \in Range(lanes[t]) : l \notin al
                         THEN lacc \cup Range(lanes[t]) ELSE lacc
                ts2 == ts \o SetToSeq({h \in Halts(t) : h \notin seen2})
            IN AbortTasksLoop(m2, c, ts2, i + 1, al, seen2, lacc2)

\* Change.AbortLanes(lanes) / Change.Abort()
AbortLanesTop(m, c, L) == AbortLanesOp(m, c, L, {}, {})
AbortAll(m, c) == AbortTasksLoop(m, c, SetToSeq(TasksOf(c)), 1, {}, {}, {})

\* TaskRunner.tryUndo
TryUndo(m, t) == IF m.st[t] = "Abort" /\ ~hasUndo[t] THEN SetSt(m, t, "Hold") ELSE SetSt(m, t, "Undo")

\* mustWait
MustWait(m, t) ==
  CASE m.st[t] = "Do"   -> \E w \in waits[t] : m.st[w] # "Done"
    [] m.st[t] = "Undo" -> \E h \in Halts(t) : ~IsReadyS(m.st[h])
    [] OTHER -> FALSE

-----------------------------------------------------------------------------
(* Serialisation predicates (C07): hookmgr.go, ifacemgr.go, snapmgr.go,      *)
(* devicemgr.go; `run` is the set of tasks with a tomb incl. those started   *)
(* earlier in the same pass.                                                 *)
IfaceKinds == {"iface"}
Blocked(t, run) ==
  \/ kind[t] = "hook"   /\ \E r \in run : kind[r] = "hook" /\ snap[r] = snap[t]
  \/ kind[t] = "iface"  /\ \E r \in run : kind[r] = "iface"
  \/ kind[t] = "prereq" /\ \E r \in run : kind[r] = "prereq"
  \/ kind[t] = "gadget" /\ run # {}
  \/ \E r \in run : kind[r] = "gadget"

-----------------------------------------------------------------------------
(* TaskRunner.Ensure: a fold over the tasks in some order.                  *)
(* acc = [m, at, run, cl, bad, redo]                                        *)

StartOK(m, at, t) ==        \* C02, evaluated at the instant run() is called
  \* prerequisites are checked where a handler is started for the first time (Do->Doing, Undo->Undoing);
  \* a re-run of a task persisted as Doing/Undoing after a restart had them satisfied when it first started
  \* (TLC on MCSpecAnyOrder shows the stronger reading fails: a task without undo handler that went
  \* Abort->Undo->Done is flipped to Undo again by a user abort while its prerequisite is already Undoing)
  /\ m.st[t] = "Do"   => \A w \in waits[t] : m.st[w] = "Done"
  /\ m.st[t] = "Undo" => \A h \in Halts(t) : IsReadyS(m.st[h])
  /\ at[t] = 0 \/ at[t] <= now

ConsiderTask(acc, t) ==
  LET m0 == acc.m
      tomb == t \in acc.run
  IN
  IF m0.st[t] = "Abort" /\ tomb THEN acc                          \* tb.Kill(nil); continue
  ELSE
  LET m1 == IF m0.st[t] = "Abort" THEN TryUndo(m0, t) ELSE m0
      s  == m1.st[t]
  IN
  IF tomb THEN [acc EXCEPT !.m = m1]
  ELSE IF IsReadyS(s)
       THEN [acc EXCEPT !.m = m1,
                        !.cl = IF m1.rdy[chgOf[t]] THEN acc.cl \cup {t} ELSE acc.cl]
  ELSE IF s = "Wait" THEN [acc EXCEPT !.m = m1]
  ELSE IF MustWait(m1, t) THEN [acc EXCEPT !.m = m1]
  ELSE IF s = "Undo" /\ ~hasUndo[t] THEN [acc EXCEPT !.m = SetSt(m1, t, "Done")]
  ELSE IF acc.at[t] # 0 /\ now < acc.at[t] THEN [acc EXCEPT !.m = m1]
  ELSE IF Blocked(t, acc.run) THEN [acc EXCEPT !.m = m1]
  ELSE \* r.run(t)
       LET m2 == CASE s = "Do"   -> SetSt(m1, t, "Doing")
                   [] s = "Undo" -> SetSt(m1, t, "Undoing")
                   [] OTHER -> m1
           isDo == s \in {"Do", "Doing"}
       IN [acc EXCEPT !.m = m2,
                      !.at = [acc.at EXCEPT ![t] = 0],
                      !.run = acc.run \cup {t},
                      !.bad = acc.bad \/ ~StartOK(m1, acc.at, t),
                      !.redo = acc.redo \/ (isDo /\ t \in everDone) \/ (~isDo /\ t \in everUndone)]

RECURSIVE FoldPass(_, _, _)
FoldPass(acc, order, i) ==
  IF i > Len(order) THEN acc ELSE FoldPass(ConsiderTask(acc, order[i]), order, i + 1)

Perms == Permutations(Tasks)      \* bijections Tasks -> Tasks, used as visiting orders

PassResult(order) ==
  FoldPass([m |-> Mem, at |-> atTime, run |-> running, cl |-> clean, bad |-> c02bad, redo |-> redoBad], order, 1)

ApplyMem(m) ==
  /\ status' = m.st
  /\ waited' = m.wd
  /\ rdy' = m.rdy
  /\ panicked' = m.pan

EnsurePass ==
  /\ ~stopped
  /\ \E order \in Perms :
       LET r == PassResult(order) IN
       /\ ApplyMem(r.m)
       /\ atTime' = r.at
       /\ running' = r.run
       /\ clean' = r.cl
       /\ c02bad' = r.bad
       /\ redoBad' = r.redo
  /\ UNCHANGED <<graphVars, now, stopped, everDone, everUndone, failedDo, failedUndo, aborted, budget>>

-----------------------------------------------------------------------------
(* The goroutine's section after the handler returned.                       *)
(* res \in {"ok","err","retry","wait"}; after: delay for retry;              *)
(* ws: waited status for wait                                                *)

FinishEffect(t, res, after, ws) ==
  LET m == Mem
      s == status[t]
      eres == IF res = "err" /\ stopped THEN "retry" ELSE res   \* "we are shutting down ... to be safe retry"
      eafter == IF res = "err" /\ stopped THEN 0 ELSE after
  IN
  CASE eres = "retry" ->
         [m |-> IF s = "Abort" THEN TryUndo(m, t) ELSE m,
          at |-> IF s # "Abort" /\ eafter # 0 THEN [atTime EXCEPT ![t] = now + eafter] ELSE atTime]
    [] eres = "wait" ->
         [m |-> IF s = "Abort" THEN TryUndo(m, t) ELSE SetToWait(m, t, ws), at |-> atTime]
    [] eres = "ok" ->
         [m |-> CASE s = "Doing"   -> SetSt(m, t, "Done")
                  [] s = "Abort"   -> SetSt(m, t, "Undo")
                  [] s = "Undoing" -> SetSt(m, t, "Undone")
                  [] OTHER -> m,
          at |-> atTime]
    [] eres = "err" ->
         [m |-> SetSt(AbortLanesTop(m, chgOf[t], Range(lanes[t])), t, "Error"), at |-> atTime]

Finish(t, res, after, ws) ==
  /\ t \in running
  /\ LET e == FinishEffect(t, res, after, ws) IN
     /\ ApplyMem(e.m)
     /\ atTime' = e.at
  /\ running' = running \ {t}
  /\ LET wasDo == status[t] \in {"Doing", "Abort", "Done"}
         real == ~(res = "err" /\ stopped)
     IN
     /\ everDone'   = IF res = "ok" /\ wasDo THEN everDone \cup {t} ELSE everDone
     /\ everUndone' = IF res = "ok" /\ ~wasDo THEN everUndone \cup {t} ELSE everUndone
     /\ failedDo'   = IF res = "err" /\ real /\ wasDo THEN failedDo \cup {t} ELSE failedDo
     /\ failedUndo' = IF res = "err" /\ real /\ ~wasDo THEN failedUndo \cup {t} ELSE failedUndo
  /\ UNCHANGED <<graphVars, clean, now, stopped, c02bad, redoBad, aborted>>

\* the environment's choice of handler results, bounded
FinishEnv ==
  \E t \in running :
    \/ Finish(t, "ok", 0, "Done") /\ UNCHANGED budget
    \/ /\ budget.fail < MaxFail
       /\ Finish(t, "err", 0, "Done")
       /\ budget' = [budget EXCEPT !.fail = @ + 1]
    \/ /\ budget.retry < MaxRetry
       /\ \E a \in {0, 1} : (a = 0 \/ now < MaxTime) /\ Finish(t, "retry", a, "Done")
       /\ budget' = [budget EXCEPT !.retry = @ + 1]
    \/ /\ budget.wait < MaxWaitRes
       /\ Finish(t, "wait", 0, IF status[t] \in {"Undoing"} THEN "Undone" ELSE "Done")
       /\ budget' = [budget EXCEPT !.wait = @ + 1]

-----------------------------------------------------------------------------
UserAbortCore(c) ==
  /\ ~rdy[c]
  /\ ApplyMem(AbortAll(Mem, c))
  /\ aborted' = aborted \cup {c}
  /\ UNCHANGED <<graphVars, atTime, clean, now, running, stopped, c02bad, redoBad, everDone, everUndone, failedDo, failedUndo>>

UserAbort(c) ==
  /\ budget.abort < MaxAbort
  /\ UserAbortCore(c)
  /\ budget' = [budget EXCEPT !.abort = @ + 1]

ResolveWait(t) ==
  /\ status[t] = "Wait"
  /\ ApplyMem(SetSt(Mem, t, waited[t]))
  /\ UNCHANGED <<graphVars, atTime, clean, now, running, stopped, c02bad, redoBad, everDone, everUndone, failedDo, failedUndo, aborted, budget>>

\* A manager sets the status of a pending task directly, without aborting its followers (e.g. snapstate's
\* aliases-v2 migration flags old pending "alias" tasks as Error). Not part of Next (it is not an engine
\* step); used by the trace spec for directed executions: followers then stay in Do, they must never start.
ManagerSetStatus(t, s) ==
  /\ status[t] = "Do" /\ t \notin running
  /\ s \in {"Error", "Hold", "Done", "Undone"}
  /\ ApplyMem(SetSt(Mem, t, s))
  /\ UNCHANGED <<graphVars, atTime, clean, now, running, stopped, c02bad, redoBad, everDone, everUndone, failedDo, failedUndo, aborted, budget>>

Tick ==
  /\ now < MaxTime
  /\ now' = now + 1
  /\ UNCHANGED <<graphVars, status, waited, atTime, clean, running, rdy, stopped, monVars>>

StopCore ==
  /\ ~stopped
  /\ stopped' = TRUE
  /\ UNCHANGED <<graphVars, status, waited, atTime, clean, now, running, rdy, panicked, c02bad, redoBad, everDone, everUndone, failedDo, failedUndo, aborted>>

Stop == budget.restart < MaxRestart /\ StopCore /\ UNCHANGED budget

\* process restart from the last checkpoint (= the current persisted state): tombs are gone,
\* ready channels are rebuilt by Change.finishUnmarshal
RestartCore ==
  /\ running' = {}
  /\ stopped' = FALSE
  /\ rdy' = [c \in Changes |-> IsReadyS(ChgStatus(status, c))]
  /\ UNCHANGED <<graphVars, status, waited, atTime, clean, now, panicked, c02bad, redoBad, everDone, everUndone, failedDo, failedUndo, aborted>>

Restart ==
  /\ budget.restart < MaxRestart
  /\ RestartCore
  /\ budget' = [budget EXCEPT !.restart = @ + 1]

Next ==
  \/ EnsurePass
  \/ FinishEnv
  \/ \E c \in Changes : UserAbort(c)
  \/ \E t \in Tasks : ResolveWait(t)
  \/ Tick
  \/ Stop
  \/ Restart

-----------------------------------------------------------------------------
InitState ==
  /\ status = [t \in Tasks |-> "Do"]
  /\ waited = [t \in Tasks |-> "Done"]
  /\ atTime = [t \in Tasks |-> 0]
  /\ clean = {}
  /\ now = 1
  /\ running = {}
  /\ rdy = [c \in Changes |-> FALSE]
  /\ stopped = FALSE
  /\ panicked = FALSE /\ c02bad = FALSE /\ redoBad = FALSE
  /\ everDone = {} /\ everUndone = {} /\ failedDo = {} /\ failedUndo = {} /\ aborted = {}
  /\ budget = [fail |-> 0, retry |-> 0, wait |-> 0, restart |-> 0, abort |-> 0]

-----------------------------------------------------------------------------
(* Properties                                                               *)

Quiescent == running = {} /\ \A t \in Tasks : IsReadyS(status[t])

RECURSIVE HaltClosure(_)
HaltClosure(S) == LET S2 == S \cup UNION {Halts(t) : t \in S} IN IF S2 = S THEN S ELSE HaltClosure(S2)

\* over-approximation of what a failure may touch: the failed tasks' lanes, everything in those lanes,
\* everything waiting on that, and their lanes, ... (ignores the healthy-lane exemption)
RECURSIVE AffectedBy(_, _)
AffectedBy(T, c) ==
  LET L  == UNION {Range(lanes[t]) : t \in T}
      T2 == HaltClosure(T \cup {t \in TasksOf(c) : Range(lanes[t]) \cap L # {}})
  IN IF T2 = T THEN T ELSE AffectedBy(T2, c)

Seeds(c) == (failedDo \cup failedUndo) \cap TasksOf(c)

\* C01 ------------------------------------------------------------------
\* (a) settles in Error with nothing pending
C01_SettlesError ==
  Quiescent => \A c \in Changes : Seeds(c) # {} => ChgStatus(status, c) = "Error"
\* (b) everything that (transitively) waits on a task whose do failed never started and is on hold
C01_WaitersHeld ==
  Quiescent => \A f \in failedDo : \A t \in HaltClosure({f}) \ {f} : status[t] = "Hold" /\ t \notin everDone
\* (c) tasks wholly inside the failed task's lanes are reverted: completed+undoable ones are undone
C01_LaneReverted ==
  Quiescent => \A f \in failedDo : \A t \in TasksOf(chgOf[f]) \ {f} :
     Range(lanes[t]) \subseteq Range(lanes[f]) =>
        /\ status[t] \in {"Undone", "Hold", "Error"} \/ (~hasUndo[t] /\ status[t] = "Done")
        /\ (t \in everDone /\ hasUndo[t]) => (status[t] = "Undone" \/ (status[t] = "Error" /\ t \in failedUndo))
\* (d) tasks that no failure can reach (independent healthy lanes) are left to complete
C01_HealthyComplete ==
  Quiescent => \A c \in Changes : c \notin aborted =>
     \A t \in TasksOf(c) \ AffectedBy(Seeds(c), c) : status[t] = "Done"
\* (e) a task all of whose lanes contain a failed task is in no healthy lane: it does not stay done
C01_AllLanesFailed ==
  Quiescent => \A t \in Tasks :
     (\A l \in Range(lanes[t]) : \E f \in (failedDo \cup failedUndo) \ {t} : chgOf[f] = chgOf[t] /\ l \in Range(lanes[f]))
       => (status[t] # "Done" \/ ~hasUndo[t] \/ t \notin everDone)
\* (f) the healthy-lane exemption itself, in the one situation where the statement pins it down without
\*     reference to the algorithm: no dependencies, a single failed task, no abort. Then every task that has
\*     a lane shared with a task wholly outside the failed task's lanes is in a healthy lane and completes
\*     (tasks in WaitStatus whose waited status is Done count as healthy: they are effectively done).
C01_SingleFailureIndependent ==
  Quiescent => \A c \in Changes :
     (aborted = {} /\ failedUndo = {} /\ Cardinality(Seeds(c)) = 1 /\ \A u \in TasksOf(c) : waits[u] = {}) =>
        LET f == CHOOSE x \in Seeds(c) : TRUE
            Lf == Range(lanes[f])
            Outsider(u) == Range(lanes[u]) \cap Lf = {}
        IN \A t \in TasksOf(c) \ {f} :
              (Outsider(t) \/ \E l \in Range(lanes[t]) \ Lf : \E u \in TasksOf(c) : Outsider(u) /\ l \in Range(lanes[u]))
                 => status[t] = "Done"
\* (g) reverse order: an undo never starts while a task that waited on it is pending/running -> c02bad
C01 == C01_SettlesError /\ C01_WaitersHeld /\ C01_LaneReverted /\ C01_HealthyComplete /\ C01_AllLanesFailed
       /\ C01_SingleFailureIndependent /\ ~c02bad

\* C02 ------------------------------------------------------------------
C02 == ~c02bad
\* tasks that are running are in a running status; nothing runs twice at once (sanity of the model)
RunningSane == \A t \in running : status[t] \in {"Doing", "Undoing", "Abort", "Done", "Undone", "Hold", "Error"}

\* C03 ------------------------------------------------------------------
C03_NoPanic == ~panicked
C03_ReadyOnce == \A c \in Changes : rdy[c] => IsReadyS(ChgStatus(status, c))
C03_ReadyIffAllReady == \A c \in Changes : (TasksOf(c) # {} /\ \A t \in TasksOf(c) : IsReadyS(status[t])) => rdy[c]
C03 == C03_NoPanic /\ C03_ReadyOnce /\ C03_ReadyIffAllReady

\* C04 ------------------------------------------------------------------
C04_NoRedo == ~redoBad
\* nothing is lost or duplicated by a restart: graph and persisted statuses are untouched
C04_RestartKeeps == [][Restart => status' = status /\ waited' = waited /\ atTime' = atTime /\ UNCHANGED graphVars]_vars

\* C07 ------------------------------------------------------------------
Conflict(a, b) ==
  /\ a # b
  /\ \/ kind[a] = "hook" /\ kind[b] = "hook" /\ snap[a] = snap[b]
     \/ kind[a] = "iface" /\ kind[b] = "iface"
     \/ kind[a] = "prereq" /\ kind[b] = "prereq"
     \/ kind[a] = "gadget" \/ kind[b] = "gadget"
C07 == \A a, b \in running : ~Conflict(a, b)

TypeOK ==
  /\ status \in [Tasks -> Status]
  /\ waited \in [Tasks -> Status]
  /\ running \subseteq Tasks
  /\ clean \subseteq Tasks

\* Liveness (C03 "every change settles"), under: handlers eventually return, Ensure keeps being called,
\* waits get resolved, time passes, a stopped runner is restarted.
Fairness ==
  /\ WF_vars(EnsurePass)
  /\ \A t \in Tasks : WF_vars(Finish(t, "ok", 0, "Done") /\ UNCHANGED budget)
  /\ \A t \in Tasks : WF_vars(ResolveWait(t))
  /\ WF_vars(Tick)
  /\ WF_vars(stopped /\ Restart)
Settles == <>[]Quiescent

=============================================================================
