\* thorough, second config: snaps a, b, c (+ snapd), at most 3 changes, without partial progress (state space)
CONSTANTS
  Snaps <- MCSnaps3
  MaxChanges = 3
  ACfgs <- MCNoACfgs
  WithPartial = FALSE
INIT Init
NEXT Next
CHECK_DEADLOCK FALSE
INVARIANTS RejectIfBusy NoStartDuringExclusive StaleRejected RejectCreatesNothing NoOverlap ExclusiveLast
