\* thorough, second config: snaps a, b (+ snapd) but up to 4 changes
CONSTANTS
  Snaps <- MCSnaps2
  MaxChanges = 4
INIT Init
NEXT Next
CHECK_DEADLOCK FALSE
INVARIANTS RejectIfBusy NoStartDuringExclusive StaleRejected RejectCreatesNothing NoOverlap ExclusiveLast
