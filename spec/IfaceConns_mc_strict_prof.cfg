\* EXPECTED TO FAIL (named deviation D1): the profile clause of the statement with entry faults; the counterexample is replayed on the real code
SPECIFICATION Spec
CONSTANTS
  MaxOps = 1
  SetupFaults = FALSE
  WorldNames = {"W3"}
INVARIANTS StrictFailureProfiles
CHECK_DEADLOCK FALSE
