\* thorough: memory and threads together (a request carrying both is refused/applied atomically), 4 groups
SPECIFICATION Spec
CONSTANTS
  MaxGroups = 4
  MaxDepth = 3
  MaxRoots = 1
  NCPU = 3
  MemVals = {1, 2}
  ThrVals = {1, 2}
  CpuCounts = {}
  CpuPcts = {}
  Cores = {}
  OtherVals = {TRUE}
  Paths = {"direct", "merged"}
VIEW View
INVARIANTS TypeOK InvMem InvThr InvSet InvFitsOrNamed NoDev
CHECK_DEADLOCK FALSE
