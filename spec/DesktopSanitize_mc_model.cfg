\* C27 model sanity (both tiers, with coverage): the scanner loop equals the tabulated function Sanitize,
\* nothing is invented; files of <= 2 lines
CONSTANTS
  MaxLen = 2
  ExcludedPairs = {}
INIT Init
NEXT Next
CHECK_DEADLOCK FALSE
INVARIANTS
  InvOnlyAllowlisted
  InvExecIsOwnWrapper
  InvIconInsideSnap
  InvTagged
  InvNoInvention
  InvLoopIsSanitize
