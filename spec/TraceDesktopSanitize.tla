------------------------- MODULE TraceDesktopSanitize -------------------------
(* C27 T->I table: evaluate the reference Install (sanitizer output per shipped file) and the four clauses of the
   statement on the install calls chosen by the check (IOEnv.VERIF_TRACE, NDJSON, one row per CALL of
   EnsureSnapDesktopFiles: {"files": [{"fname": "app|other|space", "inst": bool, "lines": [class...]}, ...]}),
   write one result per call (a sequence: one [out, clauses] per shipped file) to IOEnv.VERIF_OUT, and the class
   attribute table to IOEnv.VERIF_ATTR.
   The Go driver ships concrete spellings of the same files in one snap (or two) and makes ONE real call of
   wrappers.EnsureSnapDesktopFiles; the python side compares every installed file line by line. *)
EXTENDS DesktopSanitize, IOUtils, Json

Cases == ndJsonDeserialize(IOEnv.VERIF_TRACE)

Result(c) == LET ins  == Install(c.files)
                 cls  == InstalledClauses(c.files)
             IN [i \in 1..Len(c.files) |-> [out |-> ins[i], clauses |-> cls[i]]]

ASSUME \A i \in 1..Len(Cases) : \A k \in 1..Len(Cases[i].files) :
          /\ \A j \in 1..Len(Cases[i].files[k].lines) : Cases[i].files[k].lines[j] \in Classes
          /\ Cases[i].files[k].fname \in Fnames
ASSUME JsonSerialize(IOEnv.VERIF_OUT, [i \in 1..Len(Cases) |-> Result(Cases[i])])
ASSUME JsonSerialize(IOEnv.VERIF_ATTR, [c \in Classes |-> Attr[c]])

TInit == lines = << >> /\ inst = FALSE /\ fname = "other" /\ out = << >> /\ stopped = FALSE
TNext == FALSE /\ UNCHANGED vars
=============================================================================
