------------------------- MODULE TraceDesktopSanitize -------------------------
(* C27 T->I table: evaluate the reference sanitizer and the four clauses of the statement on the cases chosen
   by the check (IOEnv.VERIF_TRACE, NDJSON: {"lines": [class...], "inst": bool, "fname": "app|other|space"}),
   write one result per case to IOEnv.VERIF_OUT, and the class attribute table to IOEnv.VERIF_ATTR.
   The Go driver runs the real wrappers.EnsureSnapDesktopFiles on concrete spellings of the same cases; the
   python side compares line by line. *)
EXTENDS DesktopSanitize, IOUtils, Json

Cases == ndJsonDeserialize(IOEnv.VERIF_TRACE)

Result(c) == [out     |-> Sanitize(c.lines, c.inst, c.fname),
              clauses |-> Clauses(c.lines, c.inst, c.fname)]

ASSUME \A i \in 1..Len(Cases) :
          /\ \A j \in 1..Len(Cases[i].lines) : Cases[i].lines[j] \in Classes
          /\ Cases[i].fname \in Fnames
ASSUME JsonSerialize(IOEnv.VERIF_OUT, [i \in 1..Len(Cases) |-> Result(Cases[i])])
ASSUME JsonSerialize(IOEnv.VERIF_ATTR, [c \in Classes |-> Attr[c]])

TInit == lines = << >> /\ inst = FALSE /\ fname = "other" /\ out = << >> /\ stopped = FALSE
TNext == FALSE /\ UNCHANGED vars
=============================================================================
