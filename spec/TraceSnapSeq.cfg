SPECIFICATION TSpec
CONSTANTS
    MaxRev = 5
    MaxOps = 1000000
    InstallRevs <- TrNone
    AttrOpts <- TrNone
    RetainOpts <- TrNone
    CfgOpts <- TrNone
    OnClassicOpts <- TrBool
    BootOpts <- TrNone
    KernelOpts <- TrBool
    OpFaults = FALSE
INVARIANTS
    TypeOK
    C11_Consistent
    C10_Restored
    C10_BlockRestored
    C12_Retain
    C13_Revert
    C13_RevertPre
POSTCONDITION Accepted
CHECK_DEADLOCK FALSE
