--------------------------- MODULE RegistryViewTable ---------------------------
(* Exports the curated views and the full request menus of RegistryViewMC as JSON (one source of truth):
   props/_registryview.py turns them into the directed T->I table "every curated view x every menu request"
   (one short case each: Begin ; request ; [Get of the same request]) that is replayed on the real code and
   validated by TraceRegistryView like every other trace. *)
EXTENDS RegistryViewMC, IOUtils, Json

ASSUME JsonSerialize(IOEnv.VERIF_OUT,
          [views |-> ViewsTable, sets |-> SetAll, unsets |-> UnsetAll, gets |-> GetAll])

TableNext == FALSE /\ UNCHANGED vars
=============================================================================
