----------------------------- MODULE Conflicts -----------------------------
(***************************************************************************)
(* C14 -- no two in-progress changes operate on the same snap.             *)
(*                                                                         *)
(* Transcription of overlord/snapstate/conflict.go:                        *)
(*   checkChangeConflictExclusiveKinds, isIrrelevantChange,                *)
(*   CheckChangeConflictMany, checkChangeConflictIgnoringOneChange (the    *)
(*   reflect.DeepEqual(snapst) guard), and of how the request entry points *)
(*   of snapstate / ifacestate / devicestate use them.                     *)
(*                                                                         *)
(* changes : sequence of [kind, ready, snaps, down, done]                  *)
(*    done  = snaps of the change all of whose tasks are already ready     *)
(*            (lane finished / failed and undone) while the change itself  *)
(*            is still in progress: they stay locked (the conflict check   *)
(*            looks at every task of an unready change, whatever the       *)
(*            task's own status)                                           *)
(*    snaps = union of SnapsAffectedByTask over the change's tasks as      *)
(*            created at request time; down = "is a snapd downgrade"       *)
(*            (changeIsSnapdDowngrade).  A ready change is inert and is    *)
(*            normalised to Done.                                          *)
(* status  : snap -> "absent" | "active" | "inactive" (request             *)
(*            preconditions only; in-progress changes are not run, a       *)
(*            change becomes ready by being aborted or completed)          *)
(* mon     : monitor record of the last request, for the action properties *)
(*                                                                         *)
(* A request is atomic here; `mutated` is the set of requested snaps whose *)
(* SnapState was changed by somebody else while the request was talking to *)
(* the store with the state unlocked (the window the DeepEqual guard       *)
(* protects).                                                              *)
(***************************************************************************)
EXTENDS Naturals, FiniteSets, Sequences, TLC

CONSTANTS Snaps,        \* ordinary snaps
          MaxChanges,   \* bound on Len(changes)
          WithPartial,  \* model bound: explore partial progress of in-progress changes (BOOLEAN)
          ACfgs         \* model bound: the automatic-alias situations explored (set of acfg records)

Snapd == "snapd"
AllSnaps == Snaps \cup {Snapd}

Transitions == {"transition-ubuntu-core", "transition-to-snapd-snap"}
Excl3       == {"remodel", "create-recovery-system", "remove-recovery-system"}
MaybeDown   == {"refresh-snap", "revert-snap"}
Irrelevant  == {"pre-download", "become-operational"}

\* request table: op -> change kind / needs / talks to the store with the state unlocked
SingleOps == {"install", "refresh", "revert", "remove", "enable", "disable", "switch", "alias", "unalias", "prefer"}
ManyOps   == {"install-many", "refresh-many", "remove-many"}
PairOps   == {"connect", "disconnect"}
SnapdOps  == {"snapd-revert-down", "snapd-refresh-down", "snapd-refresh-up"}
StoreOps  == {"install", "refresh", "install-many", "refresh-many", "refresh-all", "refresh-from"}

KindOf(op) ==
    CASE op \in {"install", "install-many"}                     -> "install-snap"
      [] op \in {"refresh", "refresh-many", "refresh-all", "refresh-from", "snapd-refresh-down", "snapd-refresh-up"} -> "refresh-snap"
      [] op \in {"revert", "snapd-revert-down"}                 -> "revert-snap"
      [] op \in {"remove", "remove-many"}                       -> "remove-snap"
      [] op = "enable"                                          -> "enable-snap"
      [] op = "disable"                                         -> "disable-snap"
      [] op = "switch"                                          -> "switch-snap"
      [] op = "alias"                                           -> "alias"
      [] op = "unalias"                                         -> "unalias"
      [] op = "prefer"                                          -> "prefer-aliases"
      [] op = "connect"                                         -> "connect-snap"
      [] op = "disconnect"                                      -> "disconnect-snap"
      [] OTHER                                                  -> op      \* exclusive kinds, transitions, injected kinds

\* status: "absent" | "active" (installed, enabled, the store has a newer revision) | "uptodate" (installed, enabled,
\* nothing newer in the store) | "inactive" (installed, disabled, the store has a newer revision)
RefreshOps == {"refresh", "refresh-many", "refresh-all", "refresh-from"}
NeedsOK(op, S, st) ==
    CASE op \in {"install", "install-many"}  -> \A s \in S : st[s] = "absent"
      [] op = "enable"                        -> \A s \in S : st[s] = "inactive"
      [] op \in {"remove", "remove-many"}     -> \A s \in S : st[s] # "absent"
      [] op \in Excl3 \cup Transitions       -> TRUE
      [] op \in RefreshOps                    -> \A s \in S : st[s] = "active"
      [] OTHER                                -> \A s \in S : st[s] \in {"active", "uptodate"}

Done == [kind |-> "done", ready |-> TRUE, snaps |-> {}, down |-> FALSE, done |-> {}]
NoFrom == 0

\* acfg: the automatic-alias situation of the history (what the snap-declarations, i.e. the snapstate.AutoAliases hook,
\* and the recorded aliases say), constant within a history:
\*   new  = snaps that gained an automatic alias           drop = snaps holding an automatic alias that is gone
\*   xsrc/xdst = (at most one each) an automatic alias held by xsrc now belongs to xdst (alias transfer)
VARIABLES changes, status, mon, acfg
vars == <<changes, status, mon, acfg>>
NoA == [new |-> {}, drop |-> {}, xsrc |-> {}, xdst |-> {}]

Ids       == 1..Len(changes)
Live(ch)  == {i \in 1..Len(ch) : ~ch[i].ready}

(***************************************************************************)
(* Pure transcriptions                                                     *)
(***************************************************************************)
\* checkChangeConflictExclusiveKinds(st, newExclusiveChangeKind, ignoreChangeID): TRUE = error.
\* The loop returns at the first offending change (map order); only existence matters.
ExclErr(ch, newExcl, from) ==
    \E i \in Live(ch) :
        LET k == ch[i].kind IN
        \/ k \in Transitions
        \/ (k \in Excl3 /\ i # from)
        \/ (k \in MaybeDown /\ i # from /\ ch[i].down)
        \/ (newExcl /\ k \notin Transitions /\ k \notin Excl3 /\ k \notin MaybeDown)
        \* NB: a live, non-downgrading refresh-snap / revert-snap change `continue`s past the
        \*     "other changes in progress" branch: it does not stop a new exclusive change.

\* isIrrelevantChange
Relevant(ch, i, from) == ~ch[i].ready /\ i # from /\ ch[i].kind \notin Irrelevant

\* CheckChangeConflictMany(st, S, from) minus the exclusive part: TRUE = error
Busy(ch, S, from) == \E i \in 1..Len(ch) : Relevant(ch, i, from) /\ ch[i].snaps \cap S # {}

ConflictMany(ch, S, from) == ExclErr(ch, FALSE, from) \/ Busy(ch, S, from)

\* refresh-all: doUpdate skips every snap whose doInstall fails with a conflict
Effective(ch, S, mutated) == {s \in S : ~ConflictMany(ch, {s}, NoFrom) /\ s \notin mutated}

\* autoAliasesUpdate: OTHER snaps a refresh operates on (refresh-aliases / prune-auto-aliases tasks).
\* HasUpdate: the refresh has an update for the snap (its aliases are then redone by link-snap, no explicit task);
\* disabled snaps are never refresh candidates (collectCurrentSnapsAndActions skips them).
HasUpdate(st, s) == st[s] = "active"
\* refresh-all: snaps with a changed / dropped automatic alias that are not being updated, and every transfer source
TouchAll(st, ac) == {s \in ac.new \cup ac.xdst \cup ac.drop \cup ac.xsrc : ~HasUpdate(st, s)} \cup ac.xsrc
\* refresh of named snaps: only the source of an alias transfer INTO one of the named snaps
TouchNamed(ac, S) == IF ac.xdst \cap S # {} THEN ac.xsrc ELSE {}
\* applyAutoAliasesDelta in refresh-all mode skips the snaps it cannot touch
EffectiveTouch(ch, st, ac) == {t \in TouchAll(st, ac) : ~ConflictMany(ch, {t}, NoFrom)}

\* does the request get a *ChangeConflictError ?
Rejected(ch, op, S, from, mutated) ==
    CASE op \in {"refresh", "refresh-many", "refresh-from"} ->
             \* (an alias transfer source that is busy makes applyAutoAliasesDelta fail the whole named request)
             ConflictMany(ch, S \cup TouchNamed(acfg, S), from) \/ mutated # {}
      [] op \in SingleOps \cup ManyOps \cup PairOps ->
             ConflictMany(ch, S, from) \/ (op \in StoreOps /\ mutated # {})
      [] op \in {"snapd-revert-down", "snapd-refresh-down"} ->
             ConflictMany(ch, S, from) \/ ExclErr(ch, TRUE, from)
      [] op = "snapd-refresh-up"   -> ConflictMany(ch, S, from)
      [] op \in Excl3              -> ExclErr(ch, TRUE, NoFrom) \/ Busy(ch, S, NoFrom)
      [] op \in Transitions        -> Live(ch) # {}          \* changeInFlight
      [] op = "refresh-all"        -> FALSE
      [] OTHER                     -> FALSE                  \* injected kinds: no check

NewChange(op, S) == [kind |-> KindOf(op), ready |-> FALSE, snaps |-> S,
                     down |-> op \in {"snapd-revert-down", "snapd-refresh-down"}, done |-> {}]

\* the change list after the request
After(ch, op, S, from, mutated) ==
    IF Rejected(ch, op, S, from, mutated) THEN ch
    ELSE IF op = "refresh-from"
         THEN LET T == S \cup TouchNamed(acfg, S) IN [ch EXCEPT ![from].snaps = @ \cup T, ![from].done = @ \ T]
    ELSE IF op = "refresh-all"
         THEN LET E == Effective(ch, S, mutated) \cup EffectiveTouch(ch, status, acfg)
              \* (a refresh-all that has to skip everything creates no task at all: empty alias task sets are not
              \*  queued, so no check-rerefresh is added either and nothing is started)
              IN IF E = {} THEN ch ELSE Append(ch, NewChange(op, E))
    ELSE IF op \in {"refresh", "refresh-many"} THEN Append(ch, NewChange(op, S \cup TouchNamed(acfg, S)))
    ELSE Append(ch, NewChange(op, S))

(***************************************************************************)
(* Statement-level monitors (independent of Rejected/After: they look at   *)
(* the pre-state, the request and the observed outcome)                    *)
(***************************************************************************)
\* some other unfinished change (pre-download / become-operational excepted, and the change the request
\* itself belongs to) is operating on a requested snap
StmtBusy(ch, op, S, from) ==
    op # "refresh-all" /\ \E i \in Live(ch) : i # from /\ ch[i].kind \notin Irrelevant /\ ch[i].snaps \cap S # {}

\* an exclusive change is in progress (other than the one the request belongs to)
IsExclusive(c) == c.kind \in Transitions \cup Excl3 \/ (c.kind \in MaybeDown /\ c.down)
StmtExclLive(ch, from) == \E i \in Live(ch) : i # from /\ IsExclusive(ch[i])

NoMon == [kind |-> "none", all |-> FALSE, result |-> "none", busy |-> FALSE, excl |-> FALSE, stale |-> FALSE,
          same |-> TRUE]

\* result: "accepted" | "conflict"
MonOf(op, S, from, mutated, result) ==
    [kind   |-> "request", all |-> (op = "refresh-all"), result |-> result,
     busy   |-> StmtBusy(changes, op, S, from),
     excl   |-> op \notin Irrelevant /\ StmtExclLive(changes, from),
     stale  |-> op \in StoreOps \ {"refresh-all"} /\ mutated # {},
     same   |-> changes' = changes /\ status' = status /\ acfg' = acfg]

(***************************************************************************)
(* Actions                                                                 *)
(***************************************************************************)
ACfgOK(st, ac) == \A s \in ac.new \cup ac.drop \cup ac.xsrc \cup ac.xdst : st[s] # "absent"

Init ==
    /\ changes = <<>>
    /\ acfg \in ACfgs
    /\ status \in [AllSnaps -> {"absent", "active", "inactive", "uptodate"}]
    /\ status[Snapd] = "active"
    /\ ACfgOK(status, acfg)
    \* model bounds: only b may be up to date and only in the alias situations (where it matters); a is active there
    /\ \A s \in Snaps : status[s] = "uptodate" => (s = "b" /\ acfg # NoA)
    /\ acfg # NoA => status["a"] = "active"
    /\ mon = NoMon

Room == Len(changes) < MaxChanges

Request(op, S, from, mutated) ==
    /\ NeedsOK(op, S, status)
    /\ changes' = After(changes, op, S, from, mutated)
    /\ UNCHANGED <<status, acfg>>
    /\ mon' = MonOf(op, S, from, mutated,
                    IF Rejected(changes, op, S, from, mutated) THEN "conflict" ELSE "accepted")

ReqSingle == Room /\ \E op \in SingleOps, s \in Snaps, m \in BOOLEAN :
                 Request(op, {s}, NoFrom, IF m /\ op \in StoreOps THEN {s} ELSE {})
ReqMany   == Room /\ \E op \in ManyOps, S \in SUBSET Snaps, m \in SUBSET Snaps :
                 Cardinality(S) >= 2 /\ m \subseteq S /\ Cardinality(m) <= 1 /\ (op \notin StoreOps => m = {})
                 /\ Request(op, S, NoFrom, m)
ReqPair   == Room /\ \E op \in PairOps, S \in SUBSET Snaps : Cardinality(S) \in {1, 2} /\ Request(op, S, NoFrom, {})
ReqAll    == Room /\ \E m \in SUBSET Snaps : Cardinality(m) <= 1
                 /\ LET S == {s \in Snaps : status[s] = "active"}
                    IN (\E s \in Snaps : status[s] \in {"active", "uptodate"}) /\ m \subseteq S /\ Request("refresh-all", S, NoFrom, m)
ReqFrom   == \E c \in Live(changes) : \E s \in Snaps \ changes[c].done : Request("refresh-from", {s}, c, {})
             \* (model bound: not onto a finished lane, which would un-finish it and make `done` non-monotone)
ReqSnapd  == Room /\ \E op \in SnapdOps : Request(op, {Snapd}, NoFrom, {})
ReqExcl   == Room /\ \E op \in Excl3, T \in SUBSET Snaps : Cardinality(T) <= 1 /\ Request(op, T, NoFrom, {})
ReqTrans  == Room /\ \E op \in Transitions : Request(op, {}, NoFrom, {})

\* changes that are created without a conflict check by design (download-only, become-operational)
Inject == Room /\ \E k \in Irrelevant, T \in SUBSET Snaps : Cardinality(T) = 1
              /\ changes' = Append(changes, [kind |-> k, ready |-> FALSE, snaps |-> T, down |-> FALSE, done |-> {}])
              /\ UNCHANGED <<status, acfg>>
              /\ mon' = [NoMon EXCEPT !.kind = "inject"]

\* a change becomes ready (aborted, or run to completion with no effect on `status` modelled)
Progress == \E c \in Live(changes) :
              /\ changes' = [changes EXCEPT ![c] = Done]
              /\ UNCHANGED <<status, acfg>>
              /\ mon' = [NoMon EXCEPT !.kind = "progress"]

\* partial progress: every task of change c that names snap s becomes ready (its lane is done, or failed and
\* undone) while the change itself stays in progress (other lanes, or trailing tasks naming no snap)
PartialProgress == WithPartial /\ \E c \in Live(changes) : \E s \in changes[c].snaps \ changes[c].done :
              \* (model bound: only where the real change would stay unready -- several snaps, or a refresh
              \*  with its trailing check-rerefresh task; the trace spec accepts it for any change)
              /\ (Cardinality(changes[c].snaps) >= 2 \/ changes[c].kind = "refresh-snap")
              /\ changes' = [changes EXCEPT ![c].done = @ \cup {s}]
              /\ UNCHANGED <<status, acfg>>
              /\ mon' = [NoMon EXCEPT !.kind = "partial"]

Next == PartialProgress \/ ReqSingle \/ ReqMany \/ ReqPair \/ ReqAll \/ ReqFrom \/ ReqSnapd \/ ReqExcl \/ ReqTrans \/ Inject \/ Progress

Spec == Init /\ [][Next]_vars

(***************************************************************************)
(* Properties (C14)                                                        *)
(***************************************************************************)
IsReq == mon.kind = "request"

\* a request on a snap another unfinished change operates on is rejected with a conflict error -- also when all
\* the tasks of that change naming the snap are already finished (StmtBusy looks at `snaps`, not at `done`)
RejectIfBusy == (IsReq /\ mon.busy) => mon.result = "conflict"

\* while an exclusive change is in progress no other change can be started
NoStartDuringExclusive ==
    (IsReq /\ mon.excl) => (mon.same /\ (~mon.all => mon.result = "conflict"))
    \* ("refresh all" skips what it cannot refresh instead of failing: it must then start nothing at all)

\* a request whose snap record changed while it was being prepared is rejected
StaleRejected == (IsReq /\ mon.stale) => mon.result = "conflict"

\* a rejected request creates nothing
RejectCreatesNothing == (IsReq /\ mon.result # "accepted") => mon.same

\* state form: unfinished, relevant changes have pairwise disjoint request-time snap sets
NoOverlap ==
    \A i, j \in Live(changes) :
        (i # j /\ changes[i].kind \notin Irrelevant /\ changes[j].kind \notin Irrelevant)
            => changes[i].snaps \cap changes[j].snaps = {}

\* while an exclusive change is live, every other live change was there before it
\* (nothing starts during it) -- consequence of NoStartDuringExclusive, state form
ExclusiveLast ==
    \A i, j \in Live(changes) : (i < j /\ IsExclusive(changes[i])) => changes[j].kind \in Irrelevant

\* STRONGER than the statement, and NOT an invariant of the code as transcribed: an exclusive change
\* can be started while a plain refresh-snap / revert-snap change is unfinished (see ExclErr).
ExclusiveAlone ==
    \A i, j \in Live(changes) : (i # j /\ IsExclusive(changes[i])) => changes[j].kind \in Irrelevant

\* model values for ACfgs: nothing / b gained an alias / b holds a dropped alias / b's alias moved to a
MCACfgs == {NoA, [NoA EXCEPT !.new = {"b"}], [NoA EXCEPT !.drop = {"b"}], [NoA EXCEPT !.xsrc = {"b"}, !.xdst = {"a"}]}
MCACfgsQ == {NoA, [NoA EXCEPT !.xsrc = {"b"}, !.xdst = {"a"}]}
MCNoACfgs == {NoA}
MCSnaps2 == {"a", "b"}
MCSnaps3 == {"a", "b", "c"}
=============================================================================
