\* C27 install step (quick): one call installing <= 2 shipped files of <= 1 line, 2 file-name variants x instance key?
CONSTANTS
  MaxLen = 0
  ExcludedPairs = {}
  MaxFiles = 2
  MaxFileLen = 1
  FileFnames = {"other", "space"}
INIT IInit
NEXT INext
CHECK_DEADLOCK FALSE
INVARIANTS
  InvPendingStable
  InvInstallIsFunctionOfFile
  InvInstalledOnlyAllowlisted
  InvInstalledExecIsOwnWrapper
  InvInstalledIconInsideSnap
  InvInstalledTagged
