\* thorough: memory and threads together (requests carrying both => atomic refusal), 5 groups, depth 4, 2 roots
SPECIFICATION Spec
CONSTANTS
  MaxGroups = 5
  MaxDepth = 4
  MaxRoots = 2
  NCPU = 3
  MemVals = {1, 2, 3}
  ThrVals = {1, 2}
  CpuCounts = {}
  CpuPcts = {}
  Cores = {}
  OtherVals = {TRUE}
  Paths = {"direct", "merged"}
VIEW View
INVARIANTS TypeOK InvMem InvThr InvSet InvFitsOrNamed NoDev
CHECK_DEADLOCK FALSE
