\* thorough: CPU quota + cpu-set, 4 groups, depth 3, reduced request domain (count 0/2, 50%/100%, 2 cores, NumCPU 2)
SPECIFICATION Spec
CONSTANTS
  MaxGroups = 4
  MaxDepth = 3
  MaxRoots = 1
  NCPU = 2
  MemVals = {}
  ThrVals = {}
  CpuCounts = {0, 2}
  CpuPcts = {50, 100}
  Cores = {c0, c1}
  OtherVals = {TRUE}
  Paths = {"merged"}
VIEW View
SYMMETRY CoreSym
INVARIANTS TypeOK InvMem InvThr InvSet InvFitsOrNamed
CHECK_DEADLOCK FALSE
