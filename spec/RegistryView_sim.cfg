\* random simulation over every valid view of <= 3 shapes with the full menus; generator of T->I scripts
INIT SimInit
NEXT SimNext
CONSTANTS
  t1 = t1
  t2 = t2
  Txns = {1, 2}
  PH = {"{k}"}
  Views <- ViewsUpTo3
  SetMenu <- SetAll
  UnsetMenu <- UnsetAll
  GetMenu <- GetAll
  ChkPaths <- StorPaths
  MaxOps = 8
INVARIANTS AccessRespected ReadAfterWrite TxnOrder RejectedInv TypeOK
PROPERTIES RejectedChangesNothing Isolation
CHECK_DEADLOCK FALSE
