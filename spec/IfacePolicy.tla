----------------------------- MODULE IfacePolicy -----------------------------
(***************************************************************************)
(* C21 -- interface connection / auto-connection / installation decisions  *)
(* follow the declared policy rules.                                       *)
(*                                                                         *)
(* An explicit reference evaluator of snapd's declaration based policy    *)
(* (interfaces/policy/{policy,helpers}.go over the rules compiled by       *)
(* asserts/ifacedecls.go) plus the properties of the statement:            *)
(*                                                                         *)
(*   PrecedenceRespected  the verdict is the verdict of the most specific  *)
(*                        applicable rule alone (plug snap-declaration     *)
(*                        plug rule, slot snap-declaration slot rule,      *)
(*                        base-declaration plug rule, base-declaration     *)
(*                        slot rule); less specific rules are irrelevant   *)
(*   DenyOverAllow        a matching deny alternative always refuses;      *)
(*                        otherwise >= 1 allow alternative fully matches   *)
(*   DenyMonotone         adding a deny alternative to a rule never turns  *)
(*                        a refusal into an allowance                      *)
(*   the same for installation (snap-declaration rule, then base rule).    *)
(*                                                                         *)
(* The evaluator is written "code shaped" (cascade of levels, deny then    *)
(* allow, alternatives OR-ed, one conjunct per checked dimension); the     *)
(* properties are written "statement shaped" and checked by TLC over an    *)
(* enumerated product domain (state = one row: kind x 4 rule levels x      *)
(* candidate; Next edits one coordinate).  TraceIfacePolicy.tla tabulates  *)
(* Decide over rows chosen by the harness; a Go driver materialises the    *)
(* same rows as real assertions / snaps and evaluates the real code.       *)
(***************************************************************************)
EXTENDS Naturals, Sequences, FiniteSets, TLC

CONSTANTS Mode,      \* selects the sub-domain explored exhaustively (see LvSet)
          NCand      \* the first NCand candidates of CandList are explored

IFACE == "iface"

PLUGID1 == "plugsnapid1plugsnapid1plugsnapid"
PLUGID2 == "plugsnapid2plugsnapid2plugsnapid"
SLOTID1 == "slotsnapid1slotsnapid1slotsnapid"
SLOTID2 == "slotsnapid2slotsnapid2slotsnapid"

-----------------------------------------------------------------------------
(* Candidates.  A candidate fixes everything the policy looks at besides   *)
(* the rules.  The derived facts (snap ids, publishers, classic, model..)  *)
(* are looked up in the tables below; the Go driver uses the same tables   *)
(* (exported by TraceIfacePolicy) to build the real objects.               *)

NoAttrs == [a |-> "-", b |-> "-"]            \* "-" = attribute not set

\* snap-declaration of the plug / slot snap: "none" = no declaration known
\* (snap id and publisher unset: "unset never matches")
PlugDeclTab == [none |-> [id |-> "", pub |-> ""],
                d1   |-> [id |-> PLUGID1, pub |-> "pub1"],
                d2   |-> [id |-> PLUGID2, pub |-> "pub2"]]
SlotDeclTab == [none |-> [id |-> "", pub |-> ""],
                d1   |-> [id |-> SLOTID1, pub |-> "pub1"],
                d2   |-> [id |-> SLOTID2, pub |-> "pub2"],
                d3   |-> [id |-> SLOTID1, pub |-> "pub2"]]

\* release.OnClassic, release.ReleaseInfo.ID, release.OnCoreDesktop
SysTab == [core    |-> [classic |-> FALSE, osid |-> "ubuntu-core", desktop |-> FALSE],
           ubuntu  |-> [classic |-> TRUE,  osid |-> "ubuntu",      desktop |-> FALSE],
           fedora  |-> [classic |-> TRUE,  osid |-> "fedora",      desktop |-> FALSE],
           desktop |-> [classic |-> FALSE, osid |-> "ubuntu-core", desktop |-> TRUE]]

\* model assertion (+ optional store assertion) the device runs with
\* store "" = model has no store header; sto "" = no store assertion given
DevTab == [none  |-> [has |-> FALSE, brand |-> "",       model |-> "",       store |-> "",          sto |-> "",          friendly |-> {}],
           m1    |-> [has |-> TRUE,  brand |-> "brand1", model |-> "model1", store |-> "store1",    sto |-> "",          friendly |-> {}],
           m2    |-> [has |-> TRUE,  brand |-> "brand2", model |-> "model2", store |-> "",          sto |-> "",          friendly |-> {}],
           m3    |-> [has |-> TRUE,  brand |-> "brand1", model |-> "model3", store |-> "substore1", sto |-> "",          friendly |-> {}],
           m3s   |-> [has |-> TRUE,  brand |-> "brand1", model |-> "model3", store |-> "substore1", sto |-> "substore1", friendly |-> {"store1", "store2"}],
           m1bad |-> [has |-> TRUE,  brand |-> "brand1", model |-> "model1", store |-> "store1",    sto |-> "substore1", friendly |-> {"store1", "store2"}]]

\* value lists of the candidate dimensions (the harness draws candidates
\* from their product: pairwise / t-wise covering, seeded)
CandDims == [plugName |-> <<"iface", "p1">>,
             slotName |-> <<"iface", "s1">>,
             plugA    |-> <<"-", "A", "B", "L:A,B", "L:A">>,
             plugB    |-> <<"-", "A">>,
             slotA    |-> <<"-", "A", "B", "pub1", "L:A,B">>,
             slotB    |-> <<"-", "A", "B">>,
             plugType |-> <<"app", "gadget", "os", "snapd", "kernel">>,
             slotType |-> <<"app", "gadget", "os", "snapd", "kernel">>,
             plugDecl |-> <<"none", "d1", "d2">>,
             slotDecl |-> <<"none", "d1", "d2", "d3">>,
             sys      |-> <<"core", "ubuntu", "fedora", "desktop">>,
             dev      |-> <<"none", "m1", "m2", "m3", "m3s", "m1bad">>]

C0 == [plugName |-> "iface", slotName |-> "iface", plugAttrs |-> NoAttrs, slotAttrs |-> NoAttrs,
       plugType |-> "app", slotType |-> "os", plugDecl |-> "d1", slotDecl |-> "d2",
       sys |-> "core", dev |-> "none"]

\* the candidates of the exhaustive configs (hand picked so that every
\* constraint shape below both matches and does not match some candidate:
\* see ASSUME ShapesDiscriminated)
CandList == <<
  C0,
  [C0 EXCEPT !.plugAttrs = [a |-> "A", b |-> "-"], !.slotAttrs = [a |-> "A", b |-> "A"], !.slotType = "app", !.sys = "ubuntu", !.dev = "m1"],
  [C0 EXCEPT !.plugAttrs = [a |-> "B", b |-> "A"], !.slotAttrs = [a |-> "pub1", b |-> "B"], !.slotType = "gadget", !.slotDecl = "d1", !.sys = "fedora", !.dev = "m2"],
  [C0 EXCEPT !.plugName = "p1", !.slotName = "s1", !.plugDecl = "none", !.slotDecl = "none", !.slotType = "snapd", !.sys = "desktop", !.dev = "m3s"],
  [C0 EXCEPT !.plugName = "p1", !.plugAttrs = [a |-> "A", b |-> "-"], !.slotAttrs = [a |-> "B", b |-> "-"], !.plugType = "gadget", !.plugDecl = "d2", !.slotDecl = "d3", !.dev = "m3"],
  [C0 EXCEPT !.slotName = "s1", !.plugAttrs = [a |-> "B", b |-> "-"], !.slotAttrs = [a |-> "B", b |-> "B"], !.plugType = "os", !.slotType = "kernel", !.slotDecl = "d1", !.sys = "ubuntu", !.dev = "m1bad"],
  [C0 EXCEPT !.plugAttrs = [a |-> "A", b |-> "A"], !.slotAttrs = [a |-> "-", b |-> "A"], !.plugDecl = "d2", !.slotDecl = "d2", !.slotType = "snapd", !.sys = "ubuntu", !.dev = "m3s"],
  [C0 EXCEPT !.plugName = "p1", !.slotName = "s1", !.slotAttrs = [a |-> "pub1", b |-> "-"], !.plugType = "snapd", !.slotType = "os", !.slotDecl = "d1", !.sys = "desktop", !.dev = "m1"],
  [C0 EXCEPT !.plugAttrs = [a |-> "A", b |-> "A"], !.slotAttrs = [a |-> "A", b |-> "A"], !.plugDecl = "d2", !.slotDecl = "d1", !.dev = "m2"],
  [C0 EXCEPT !.plugAttrs = [a |-> "L:A,B", b |-> "-"], !.slotAttrs = [a |-> "L:A,B", b |-> "A"], !.slotType = "app", !.sys = "ubuntu", !.dev = "m1"]
>>

PlugID(c)  == PlugDeclTab[c.plugDecl].id
PlugPub(c) == PlugDeclTab[c.plugDecl].pub
SlotID(c)  == SlotDeclTab[c.slotDecl].id
SlotPub(c) == SlotDeclTab[c.slotDecl].pub

-----------------------------------------------------------------------------
(* Constraints: one record per {allow,deny}-* alternative.  {} / "-" mean  *)
(* "not specified" (the compiled default: no restriction).                 *)

NoC == [plugNames |-> {}, slotNames |-> {},                 \* sets of literal names or "$INTERFACE"
        plugAttrs |-> NoAttrs, slotAttrs |-> NoAttrs,       \* attr -> matcher ("-" none)
        plugTypes |-> {}, slotTypes |-> {},                 \* plug-snap-type / slot-snap-type
        plugIDs |-> {}, slotIDs |-> {},                     \* plug-snap-id / slot-snap-id
        plugPubs |-> {}, slotPubs |-> {},                   \* plug-publisher-id / slot-publisher-id
        classic |-> "-", classicIDs |-> {},                 \* on-classic: "-" | "true" | "false" | "ids"
        desktop |-> "-",                                    \* on-core-desktop: "-" | "true" | "false"
        onStore |-> {}, onBrand |-> {}, onModel |-> {},     \* device scope
        spp |-> "-"]                                        \* slots-per-plug: "-" | "*" | "1" | "2"

SpecialIDs == {"$PLUG_PUBLISHER_ID", "$SLOT_PUBLISHER_ID"}

\* ---- the checked dimensions, one operator per helper in helpers.go ----

\* checkSnapType: "os" and "snapd" snaps count as "core"
TypeWord(t) == IF t \in {"os", "snapd"} THEN "core" ELSE t
CheckSnapType(t, types) == types = {} \/ TypeWord(t) \in types

\* checkID: unset values never match; $SPECIAL resolved through `special`
\* (a record), unknown or empty specials are ignored
CheckID(id, ids, special) ==
  \/ ids = {}
  \/ /\ id # ""
     /\ \E x \in ids :
          IF x \in SpecialIDs
          THEN x \in DOMAIN special /\ special[x] # "" /\ special[x] = id
          ELSE x = id

CheckOnClassic(c, cand) ==
  LET s == SysTab[cand.sys] IN
  CASE c.classic = "-"     -> TRUE
    [] c.classic = "true"  -> s.classic
    [] c.classic = "false" -> ~s.classic
    [] c.classic = "ids"   -> s.classic /\ s.osid \in c.classicIDs

CheckOnCoreDesktop(c, cand) ==
  LET s == SysTab[cand.sys] IN
  CASE c.desktop = "-"     -> TRUE
    [] c.desktop = "true"  -> s.desktop
    [] c.desktop = "false" -> ~s.desktop

\* DeviceScopeConstraint.Check with UseFriendlyStores
CheckDeviceScope(c, cand) ==
  LET d == DevTab[cand.dev] IN
  \/ (c.onStore = {} /\ c.onBrand = {} /\ c.onModel = {})
  \/ /\ d.has
     /\ (d.sto = "" \/ d.sto = d.store)
     /\ (c.onStore = {} \/ d.store \in c.onStore \/ (d.sto # "" /\ (d.friendly \cap c.onStore) # {}))
     /\ (c.onBrand = {} \/ d.brand \in c.onBrand)
     /\ (c.onModel = {} \/ (d.brand \o "/" \o d.model) \in c.onModel)

\* NameConstraints.Check: literals are anchored regexps, $INTERFACE special
CheckNames(names, name) ==
  names = {} \/ \E m \in names : IF m = "$INTERFACE" THEN name = IFACE ELSE m = name

\* attribute matchers: "$MISSING", "$SLOT(x)", "$PLUG(x)", "$PLUG_PUBLISHER_ID",
\* "$SLOT_PUBLISHER_ID", an anchored regexp ("A", "B", "A|B", "pub1") or "ALT:A,B"
\* "ALT:A,B" is the list form [A, B] of alternative attribute matchers (altAttrMatcher)
Lits(m) == IF m \in {"A|B", "ALT:A,B"} THEN {"A", "B"} ELSE {m}
\* attribute values are scalars, or lists written "L:x,y" (the Go driver turns them into YAML lists):
\* a regexp constraint must match every element of a list (matchList); $SLOT()/$PLUG() compare whole
\* values (reflect.DeepEqual: a scalar never equals a list); publisher references want a string
IsList(v) == v \in {"L:A", "L:A,B"}
Elems(v) == IF v = "L:A,B" THEN {"A", "B"} ELSE IF v = "L:A" THEN {"A"} ELSE {v}
EvalRefs == [slotA |-> "$SLOT(a)", slotB |-> "$SLOT(b)", plugA |-> "$PLUG(a)", plugB |-> "$PLUG(b)"]

\* ctx: TRUE for connections (AttrMatchContext available), FALSE for installation
MatchEntry(m, v, cand, ctx) ==
  IF m = "$MISSING" THEN v = "-"
  ELSE IF v = "-" THEN FALSE                     \* "has constraints but is unset"
  ELSE IF m = "$SLOT(a)" THEN ctx /\ cand.slotAttrs.a # "-" /\ v = cand.slotAttrs.a
  ELSE IF m = "$SLOT(b)" THEN ctx /\ cand.slotAttrs.b # "-" /\ v = cand.slotAttrs.b
  ELSE IF m = "$PLUG(a)" THEN ctx /\ cand.plugAttrs.a # "-" /\ v = cand.plugAttrs.a
  ELSE IF m = "$PLUG(b)" THEN ctx /\ cand.plugAttrs.b # "-" /\ v = cand.plugAttrs.b
  ELSE IF m = "$PLUG_PUBLISHER_ID" THEN ctx /\ ~IsList(v) /\ v = PlugPub(cand)
  ELSE IF m = "$SLOT_PUBLISHER_ID" THEN ctx /\ ~IsList(v) /\ v = SlotPub(cand)
  ELSE Elems(v) \subseteq Lits(m)

CheckAttrs(ms, attrs, cand, ctx) ==
  \A k \in {"a", "b"} : ms[k] = "-" \/ MatchEntry(ms[k], attrs[k], cand, ctx)

\* ---- one alternative, per kind of rule (checkXxxConstraints1) ----

\* plug-side rule, connection / auto-connection (PlugConnectionConstraints)
MatchPlugConn(c, cand) ==
  /\ CheckNames(c.plugNames, cand.plugName)
  /\ CheckNames(c.slotNames, cand.slotName)
  /\ CheckAttrs(c.plugAttrs, cand.plugAttrs, cand, TRUE)
  /\ CheckAttrs(c.slotAttrs, cand.slotAttrs, cand, TRUE)
  /\ CheckSnapType(cand.slotType, c.slotTypes)
  /\ CheckID(SlotID(cand), c.slotIDs, [none |-> ""])
  /\ CheckID(SlotPub(cand), c.slotPubs, ("$PLUG_PUBLISHER_ID" :> PlugPub(cand)))
  /\ CheckOnClassic(c, cand)
  /\ CheckOnCoreDesktop(c, cand)
  /\ CheckDeviceScope(c, cand)

\* slot-side rule, connection / auto-connection (SlotConnectionConstraints)
MatchSlotConn(c, cand) ==
  /\ CheckNames(c.plugNames, cand.plugName)
  /\ CheckNames(c.slotNames, cand.slotName)
  /\ CheckAttrs(c.plugAttrs, cand.plugAttrs, cand, TRUE)
  /\ CheckAttrs(c.slotAttrs, cand.slotAttrs, cand, TRUE)
  /\ CheckSnapType(cand.slotType, c.slotTypes)
  /\ CheckSnapType(cand.plugType, c.plugTypes)
  /\ CheckID(PlugID(cand), c.plugIDs, [none |-> ""])
  /\ CheckID(PlugPub(cand), c.plugPubs, ("$SLOT_PUBLISHER_ID" :> SlotPub(cand)))
  /\ CheckOnClassic(c, cand)
  /\ CheckOnCoreDesktop(c, cand)
  /\ CheckDeviceScope(c, cand)

\* installation of the snap carrying the plug (PlugInstallationConstraints)
MatchPlugInst(c, cand) ==
  /\ CheckNames(c.plugNames, cand.plugName)
  /\ CheckAttrs(c.plugAttrs, cand.plugAttrs, cand, FALSE)
  /\ CheckSnapType(cand.plugType, c.plugTypes)
  /\ CheckID(PlugID(cand), c.plugIDs, [none |-> ""])
  /\ CheckOnClassic(c, cand)
  /\ CheckOnCoreDesktop(c, cand)
  /\ CheckDeviceScope(c, cand)

\* installation of the snap carrying the slot (SlotInstallationConstraints)
MatchSlotInst(c, cand) ==
  /\ CheckNames(c.slotNames, cand.slotName)
  /\ CheckAttrs(c.slotAttrs, cand.slotAttrs, cand, FALSE)
  /\ CheckSnapType(cand.slotType, c.slotTypes)
  /\ CheckID(SlotID(cand), c.slotIDs, [none |-> ""])
  /\ CheckOnClassic(c, cand)
  /\ CheckOnCoreDesktop(c, cand)
  /\ CheckDeviceScope(c, cand)

Sides == {"plugConn", "slotConn", "plugInst", "slotInst"}

Match(side, c, cand) ==
  CASE side = "plugConn" -> MatchPlugConn(c, cand)
    [] side = "slotConn" -> MatchSlotConn(c, cand)
    [] side = "plugInst" -> MatchPlugInst(c, cand)
    [] side = "slotInst" -> MatchSlotInst(c, cand)

-----------------------------------------------------------------------------
(* Alternatives and rules.                                                 *)
(* An alt-list is what follows allow-xxx: / deny-xxx: -- not given         *)
(* ("default": allow-* -> true, deny-* -> false), the literals "true" /    *)
(* "false", or 1..n alternative constraints (OR).                          *)

AltDefault == [lit |-> "default", alts |-> <<>>]
AltTrue    == [lit |-> "true",    alts |-> <<>>]
AltFalse   == [lit |-> "false",   alts |-> <<>>]
AltOf(cs)  == [lit |-> "alts",    alts |-> cs]

\* a rule for the interface at one level: absent, the shortcuts true/false
\* (defaultOutcome / invertedOutcome), or a map giving allow / deny of the
\* kind under evaluation
Absent     == [short |-> "absent", allow |-> AltDefault, deny |-> AltDefault]
ShortTrue  == [short |-> "true",   allow |-> AltDefault, deny |-> AltDefault]
ShortFalse == [short |-> "false",  allow |-> AltDefault, deny |-> AltDefault]
RuleOf(al, de) == [short |-> "-", allow |-> al, deny |-> de]

Present(r) == r.short # "absent"

\* what the compiled rule holds for the evaluated kind
EffAllow(r) == IF r.short = "true" THEN AltTrue ELSE IF r.short = "false" THEN AltFalse
               ELSE IF r.allow.lit = "default" THEN AltTrue ELSE r.allow
EffDeny(r)  == IF r.short = "true" THEN AltFalse ELSE IF r.short = "false" THEN AltTrue
               ELSE IF r.deny.lit = "default" THEN AltFalse ELSE r.deny

\* checkXxxAltConstraints: OR over the alternatives; "true" is a single
\* always-matching alternative, "false" a never-matching one
AltMatches(side, al, cand) ==
  CASE al.lit = "true"  -> TRUE
    [] al.lit = "false" -> FALSE
    [] al.lit = "alts"  -> \E i \in 1..Len(al.alts) : Match(side, al.alts[i], cand)

\* slots-per-plug of the first matching allow alternative, normalised as
\* normalizeSideArityConstraints does for allow-auto-connection: "*" or 1
FirstMatching(side, al, cand) ==
  CHOOSE i \in 1..Len(al.alts) : /\ Match(side, al.alts[i], cand)
                                 /\ \A j \in 1..(i-1) : ~Match(side, al.alts[j], cand)
ArityAny(side, al, cand) ==
  IF al.lit = "alts" THEN al.alts[FirstMatching(side, al, cand)].spp = "*" ELSE FALSE

\* checkPlugRule / checkSlotRule: deny first, then allow
RuleVerdict(side, r, cand) ==
  IF AltMatches(side, EffDeny(r), cand) THEN "denied"
  ELSE IF AltMatches(side, EffAllow(r), cand) THEN "allowed"
  ELSE "not-allowed"

-----------------------------------------------------------------------------
(* The decision procedures.  lv = <<r1, r2, r3, r4>>:                      *)
(*   r1 plug snap-declaration plug rule   r2 slot snap-declaration slot    *)
(*   rule   r3 base-declaration plug rule   r4 base-declaration slot rule  *)

ConnKinds == {"connection", "auto-connection"}
InstKinds == {"plug-installation", "slot-installation", "slot-installation-minimal"}
Kinds == ConnKinds \cup InstKinds

\* which constraint vocabulary a level uses for a kind ("" = level not consulted)
SideOf(kind, l) ==
  CASE kind \in ConnKinds           -> IF l \in {1, 3} THEN "plugConn" ELSE "slotConn"
    [] kind = "plug-installation"   -> IF l \in {1, 3} THEN "plugInst" ELSE ""
    [] kind = "slot-installation"   -> IF l \in {2, 4} THEN "slotInst" ELSE ""
    [] kind = "slot-installation-minimal" -> IF l = 4 THEN "slotInst" ELSE ""

\* a snap-declaration rule can only exist if the snap has a declaration
Applicable(kind, l, lv, cand) ==
  /\ SideOf(kind, l) # ""
  /\ Present(lv[l])
  /\ (l = 1 => cand.plugDecl # "none")
  /\ (l = 2 => cand.slotDecl # "none")

Verdict(ok, why, level, any) == [ok |-> ok, why |-> why, level |-> level, any |-> any]

AtLevel(kind, l, lv, cand) ==
  LET side == SideOf(kind, l)
      v == RuleVerdict(side, lv[l], cand)
  IN  Verdict(v = "allowed", v, l,
              v = "allowed" /\ kind = "auto-connection" /\ ArityAny(side, EffAllow(lv[l]), cand))

\* ConnectCandidate.check / InstallCandidate.checkPlug / checkSlot: the
\* first level that has a rule for the interface decides, alone
Cascade(kind, lv, cand) ==
  IF Applicable(kind, 1, lv, cand) THEN AtLevel(kind, 1, lv, cand)
  ELSE IF Applicable(kind, 2, lv, cand) THEN AtLevel(kind, 2, lv, cand)
  ELSE IF Applicable(kind, 3, lv, cand) THEN AtLevel(kind, 3, lv, cand)
  ELSE IF Applicable(kind, 4, lv, cand) THEN AtLevel(kind, 4, lv, cand)
  ELSE Verdict(TRUE, "no-rule", 0, FALSE)

\* InstallCandidateMinimalCheck (--dangerous): only the base-declaration slot
\* rule's allow-installation, only alternatives that constrain slot-snap-type /
\* on-classic / on-core-desktop, only those three dimensions; deny ignored
MinimalConsidered(c) == c.slotTypes # {} \/ c.classic # "-" \/ c.desktop # "-"
MinimalMatch(c, cand) ==
  CheckSnapType(cand.slotType, c.slotTypes) /\ CheckOnClassic(c, cand) /\ CheckOnCoreDesktop(c, cand)
Minimal(lv, cand) ==
  IF ~Present(lv[4]) THEN Verdict(TRUE, "no-rule", 0, FALSE)
  ELSE LET al == EffAllow(lv[4])
           considered == IF al.lit = "alts" THEN {i \in 1..Len(al.alts) : MinimalConsidered(al.alts[i])} ELSE {}
           ok == considered = {} \/ \E i \in considered : MinimalMatch(al.alts[i], cand)
       IN  Verdict(ok, IF ok THEN "allowed" ELSE "not-allowed", 4, FALSE)

Decide(kind, lv, cand) ==
  IF kind = "slot-installation-minimal" THEN Minimal(lv, cand) ELSE Cascade(kind, lv, cand)

-----------------------------------------------------------------------------
(* The enumerated shapes.                                                  *)

PA(a, b) == [a |-> a, b |-> b]

\* constraints usable in plug rules for connection / auto-connection
PlugConnCons == <<
  [NoC EXCEPT !.slotTypes = {"core"}],                                          \*  1
  [NoC EXCEPT !.slotTypes = {"app", "gadget"}],                                 \*  2
  [NoC EXCEPT !.slotIDs = {SLOTID1}],                                           \*  3
  [NoC EXCEPT !.slotPubs = {"pub1"}],                                           \*  4
  [NoC EXCEPT !.slotPubs = {"$PLUG_PUBLISHER_ID"}],                             \*  5
  [NoC EXCEPT !.slotPubs = {"pub2", "$PLUG_PUBLISHER_ID"}],                     \*  6
  [NoC EXCEPT !.slotPubs = {"$SLOT_PUBLISHER_ID"}],                             \*  7 special of the wrong side: ignored
  [NoC EXCEPT !.plugAttrs = PA("A", "-")],                                      \*  8
  [NoC EXCEPT !.slotAttrs = PA("$MISSING", "-")],                               \*  9
  [NoC EXCEPT !.plugAttrs = PA("$SLOT(a)", "-")],                               \* 10
  [NoC EXCEPT !.slotAttrs = PA("-", "$PLUG(a)")],                               \* 11
  [NoC EXCEPT !.plugAttrs = PA("A|B", "-"), !.slotAttrs = PA("A", "-")],        \* 12
  [NoC EXCEPT !.slotAttrs = PA("$PLUG_PUBLISHER_ID", "-")],                     \* 13
  [NoC EXCEPT !.plugNames = {"$INTERFACE"}],                                    \* 14
  [NoC EXCEPT !.plugNames = {"p1", "$INTERFACE"}, !.slotNames = {"s1"}],        \* 15
  [NoC EXCEPT !.classic = "true"],                                              \* 16
  [NoC EXCEPT !.classic = "false"],                                             \* 17
  [NoC EXCEPT !.classic = "ids", !.classicIDs = {"ubuntu"}],                    \* 18
  [NoC EXCEPT !.desktop = "true"],                                              \* 19
  [NoC EXCEPT !.onStore = {"store1"}],                                          \* 20
  [NoC EXCEPT !.onBrand = {"brand1"}],                                          \* 21
  [NoC EXCEPT !.onModel = {"brand1/model1", "brand2/model2"}],    \* 22
  [NoC EXCEPT !.slotTypes = {"core"}, !.classic = "true", !.plugAttrs = PA("A", "-")], \* 23
  [NoC EXCEPT !.spp = "*"],                                                     \* 24 allow only
  [NoC EXCEPT !.spp = "2", !.slotTypes = {"app", "core"}]                       \* 25 allow only
>>

\* constraints usable in slot rules for connection / auto-connection
SlotConnCons == <<
  [NoC EXCEPT !.plugTypes = {"app"}],                                           \*  1
  [NoC EXCEPT !.slotTypes = {"core"}, !.plugTypes = {"app", "gadget", "core"}], \*  2
  [NoC EXCEPT !.plugIDs = {PLUGID1}],                                           \*  3
  [NoC EXCEPT !.plugPubs = {"pub1"}],                                           \*  4
  [NoC EXCEPT !.plugPubs = {"$SLOT_PUBLISHER_ID"}],                             \*  5
  [NoC EXCEPT !.plugPubs = {"pub2", "$SLOT_PUBLISHER_ID"}],                     \*  6
  [NoC EXCEPT !.plugPubs = {"$PLUG_PUBLISHER_ID"}],                             \*  7 wrong side: ignored
  [NoC EXCEPT !.slotAttrs = PA("A", "-")],                                      \*  8
  [NoC EXCEPT !.plugAttrs = PA("$MISSING", "-")],                               \*  9
  [NoC EXCEPT !.slotAttrs = PA("$PLUG(a)", "-")],                               \* 10
  [NoC EXCEPT !.plugAttrs = PA("-", "$SLOT(b)")],                               \* 11
  [NoC EXCEPT !.slotAttrs = PA("ALT:A,B", "-"), !.plugAttrs = PA("A", "-")],    \* 12
  [NoC EXCEPT !.slotAttrs = PA("$PLUG_PUBLISHER_ID", "-")],                     \* 13
  [NoC EXCEPT !.slotNames = {"$INTERFACE"}],                                    \* 14
  [NoC EXCEPT !.slotNames = {"s1", "$INTERFACE"}, !.plugNames = {"p1"}],        \* 15
  [NoC EXCEPT !.classic = "true"],                                              \* 16
  [NoC EXCEPT !.classic = "false"],                                             \* 17
  [NoC EXCEPT !.classic = "ids", !.classicIDs = {"fedora"}],                    \* 18
  [NoC EXCEPT !.desktop = "false"],                                             \* 19
  [NoC EXCEPT !.onStore = {"store2"}],                                          \* 20
  [NoC EXCEPT !.onBrand = {"brand2"}],                                          \* 21
  [NoC EXCEPT !.onModel = {"brand1/model3"}],                            \* 22
  [NoC EXCEPT !.plugTypes = {"app"}, !.classic = "false", !.slotAttrs = PA("-", "A")], \* 23
  [NoC EXCEPT !.spp = "*"],                                                     \* 24 allow only
  [NoC EXCEPT !.spp = "1", !.plugTypes = {"app", "core"}]                       \* 25 allow only
>>

PlugInstCons == <<
  [NoC EXCEPT !.plugTypes = {"app"}],
  [NoC EXCEPT !.plugTypes = {"core", "gadget"}],
  [NoC EXCEPT !.plugIDs = {PLUGID1}],
  [NoC EXCEPT !.plugNames = {"$INTERFACE"}],
  [NoC EXCEPT !.plugAttrs = PA("A", "-")],
  [NoC EXCEPT !.plugAttrs = PA("$MISSING", "A")],
  [NoC EXCEPT !.plugAttrs = PA("$SLOT(a)", "-")],          \* needs a connection context: never matches
  [NoC EXCEPT !.classic = "true"],
  [NoC EXCEPT !.classic = "ids", !.classicIDs = {"ubuntu"}],
  [NoC EXCEPT !.desktop = "true"],
  [NoC EXCEPT !.onStore = {"store1"}],
  [NoC EXCEPT !.onBrand = {"brand1"}, !.plugTypes = {"app"}]
>>

SlotInstCons == <<
  [NoC EXCEPT !.slotTypes = {"core"}],
  [NoC EXCEPT !.slotTypes = {"app", "gadget"}],
  [NoC EXCEPT !.slotIDs = {SLOTID1}],
  [NoC EXCEPT !.slotNames = {"s1"}],
  [NoC EXCEPT !.slotAttrs = PA("A", "-")],
  [NoC EXCEPT !.slotAttrs = PA("$MISSING", "-")],
  [NoC EXCEPT !.slotAttrs = PA("$PLUG(a)", "-")],          \* never matches at installation
  [NoC EXCEPT !.classic = "false"],
  [NoC EXCEPT !.classic = "ids", !.classicIDs = {"ubuntu", "fedora"}],
  [NoC EXCEPT !.desktop = "false", !.slotTypes = {"core", "app"}],
  [NoC EXCEPT !.onModel = {"brand1/model1"}],
  [NoC EXCEPT !.slotIDs = {SLOTID2}, !.classic = "true"]
>>

ConsOf(side) ==
  CASE side = "plugConn" -> PlugConnCons
    [] side = "slotConn" -> SlotConnCons
    [] side = "plugInst" -> PlugInstCons
    [] side = "slotInst" -> SlotInstCons

\* two-alternative lists (indices into the constraint list of the side)
ConnPairs == << <<1, 8>>, <<8, 1>>, <<3, 16>>, <<20, 21>>, <<24, 2>>, <<2, 24>>, <<25, 24>>, <<5, 9>> >>
InstPairs == << <<1, 5>>, <<3, 8>>, <<11, 2>> >>

\* slots-per-plug may only appear in allow-*connection
NoSpp(al) == \A i \in 1..Len(al.alts) : al.alts[i].spp = "-"

AltListsFor(cons, pairs) ==
  <<AltDefault, AltTrue, AltFalse>>
  \o [i \in 1..Len(cons) |-> AltOf(<<cons[i]>>)]
  \o [k \in 1..Len(pairs) |-> AltOf(<<cons[pairs[k][1]], cons[pairs[k][2]]>>)]

AllowListsPlugConn == AltListsFor(PlugConnCons, ConnPairs)
AllowListsSlotConn == AltListsFor(SlotConnCons, ConnPairs)
AllowListsPlugInst == AltListsFor(PlugInstCons, InstPairs)
AllowListsSlotInst == AltListsFor(SlotInstCons, InstPairs)
DenyListsPlugConn == SelectSeq(AllowListsPlugConn, NoSpp)
DenyListsSlotConn == SelectSeq(AllowListsSlotConn, NoSpp)
DenyListsPlugInst == AllowListsPlugInst
DenyListsSlotInst == AllowListsSlotInst

\* rule shapes of a side: 1 = shortcut true, 2 = shortcut false, then every
\* (allow list, deny list) pair.  Index 0 stands for "no rule" (Absent).
RulesFor(A, D) ==
  <<ShortTrue, ShortFalse>>
  \o [k \in 1..(Len(A) * Len(D)) |-> RuleOf(A[((k - 1) \div Len(D)) + 1], D[((k - 1) % Len(D)) + 1])]

RulesPlugConn == RulesFor(AllowListsPlugConn, DenyListsPlugConn)
RulesSlotConn == RulesFor(AllowListsSlotConn, DenyListsSlotConn)
RulesPlugInst == RulesFor(AllowListsPlugInst, DenyListsPlugInst)
RulesSlotInst == RulesFor(AllowListsSlotInst, DenyListsSlotInst)

RulesOf(side) ==
  CASE side = "plugConn" -> RulesPlugConn
    [] side = "slotConn" -> RulesSlotConn
    [] side = "plugInst" -> RulesPlugInst
    [] side = "slotInst" -> RulesSlotInst

\* index of the rule RuleOf(A[i], D[j])
RuleIdx(nd, i, j) == 2 + (i - 1) * nd + j

RuleAt(side, idx) == IF idx = 0 \/ side = "" THEN Absent ELSE RulesOf(side)[idx]
LvOf(kind, idxs) == [l \in 1..4 |-> RuleAt(SideOf(kind, l), idxs[l])]

\* "adding a deny alternative" to a rule given as a map (the shortcuts have no
\* deny list to extend; a literal deny-xxx: true cannot be extended either)
CanAddDeny(r) == r.short = "-" /\ r.deny.lit \in {"default", "false", "alts"}
AddDeny(r, d) ==
  [r EXCEPT !.deny = IF r.deny.lit = "alts" THEN AltOf(Append(r.deny.alts, d)) ELSE AltOf(<<d>>)]

-----------------------------------------------------------------------------
(* Well-formedness of the shapes (what asserts/ifacedecls.go accepts).     *)

Specified(c) == c # NoC
SideValid(side, c) ==
  /\ Specified(c)
  /\ (side = "plugConn" => c.plugTypes = {} /\ c.plugIDs = {} /\ c.plugPubs = {})
  /\ (side = "slotConn" => c.slotIDs = {} /\ c.slotPubs = {})
  /\ (side = "plugInst" => c.slotTypes = {} /\ c.slotIDs = {} /\ c.slotPubs = {} /\ c.plugPubs = {}
                           /\ c.slotNames = {} /\ c.slotAttrs = NoAttrs /\ c.spp = "-")
  /\ (side = "slotInst" => c.plugTypes = {} /\ c.plugIDs = {} /\ c.slotPubs = {} /\ c.plugPubs = {}
                           /\ c.plugNames = {} /\ c.plugAttrs = NoAttrs /\ c.spp = "-")
  /\ (c.classic = "ids" <=> c.classicIDs # {})

ASSUME ShapesValid ==
  \A side \in Sides : \A i \in 1..Len(ConsOf(side)) : SideValid(side, ConsOf(side)[i])

\* vacuity guard inside the spec: every constraint shape is matched by some
\* candidate of CandList and not matched by another one
ASSUME ShapesDiscriminated ==
  \A side \in {"plugConn", "slotConn"} : \A i \in 1..Len(ConsOf(side)) :
     LET c == ConsOf(side)[i] IN
     \/ i \in {7, 24}            \* never / always matching by construction
     \/ /\ \E k \in 1..Len(CandList) : Match(side, c, CandList[k])
        /\ \E k \in 1..Len(CandList) : ~Match(side, c, CandList[k])

-----------------------------------------------------------------------------
(* Properties, statement shaped.                                           *)

\* the most specific applicable level
Levels(kind) == {l \in 1..4 : SideOf(kind, l) # ""}
Top(kind, lv, cand) ==
  LET app == {l \in 1..4 : Applicable(kind, l, lv, cand)} IN
  IF app = {} THEN 0 ELSE CHOOSE l \in app : \A m \in app : l <= m

Only(l, lv) == [m \in 1..4 |-> IF m = l THEN lv[m] ELSE Absent]

\* (a) the decision is the one of the most specific applicable rule, alone
\* (b) deny over allow; allowing needs one fully matching allow alternative
\*     (the --dangerous minimal check ignores deny-installation by design)
RowProps(kind, lv, cand) ==
  LET t    == Top(kind, lv, cand)
      d    == Decide(kind, lv, cand)
      d1   == Decide(kind, Only(t, lv), cand)
      side == SideOf(kind, t)
      dm   == AltMatches(side, EffDeny(lv[t]), cand)
      am   == AltMatches(side, EffAllow(lv[t]), cand)
  IN  [prec |-> IF t = 0 THEN d.ok ELSE (d.ok = d1.ok /\ d.any = d1.any),
       doa  |-> (t # 0 /\ kind # "slot-installation-minimal") =>
                  /\ dm => ~d.ok
                  /\ d.ok <=> (~dm /\ am)]

PrecedenceAt(kind, lv, cand)   == RowProps(kind, lv, cand).prec
DenyOverAllowAt(kind, lv, cand) == RowProps(kind, lv, cand).doa

\* adding a deny alternative never turns a refusal into an allowance
DenyMonotoneAt(kind, lv, cand) ==
  \/ Decide(kind, lv, cand).ok                       \* already allowed: nothing to show
  \/ \A l \in Levels(kind) :
       (Present(lv[l]) /\ CanAddDeny(lv[l])) =>
         \A i \in 1..Len(ConsOf(SideOf(kind, l))) :
           LET d == ConsOf(SideOf(kind, l))[i] IN
           d.spp = "-" => ~Decide(kind, [lv EXCEPT ![l] = AddDeny(lv[l], d)], cand).ok

-----------------------------------------------------------------------------
(* Exhaustive exploration: one state = one row of the decision table.      *)

VARIABLES kind, li, ci       \* li: <<i1, i2, i3, i4>> rule indices (0 = absent), ci: index into CandList
vars == <<kind, li, ci>>

NA(side) == Len(ConsOf(side)) + 3 + (IF side \in {"plugConn", "slotConn"} THEN Len(ConnPairs) ELSE Len(InstPairs))
ND(side) == IF side = "plugConn" THEN Len(DenyListsPlugConn)
            ELSE IF side = "slotConn" THEN Len(DenyListsSlotConn) ELSE NA(side)

\* small representative rule set used at the levels that are not swept
\* (absent, the shortcuts, an allow-only, a deny-only and an allow+deny rule)
FewRules(side) ==
  LET nd == ND(side) IN
  {0, 1, 2, RuleIdx(nd, 4, 1), RuleIdx(nd, 1, 5), RuleIdx(nd, 11, 4), RuleIdx(nd, 2, 12)}
AllRules(side) == 0..Len(RulesOf(side))

ModeKinds ==
  CASE Mode = "prec"  -> ConnKinds
    [] Mode = "quick" -> Kinds
    [] Mode \in {"lvl1", "lvl2", "lvl3", "lvl4"} -> ConnKinds
    [] Mode = "inst"  -> InstKinds
    [] Mode = "tiny"  -> Kinds

LvSet(k, l) ==
  LET side == SideOf(k, l) IN
  IF side = "" THEN {0}
  ELSE CASE Mode = "prec" -> FewRules(side)
         [] Mode = "quick" -> IF k \in ConnKinds \/ l \in {1, 2} THEN FewRules(side) ELSE AllRules(side)
         [] Mode = "tiny" -> {0, 1, 2, RuleIdx(ND(side), 4, 1)}
         [] Mode = "lvl1" -> IF l = 1 THEN AllRules(side) ELSE {0, 2}
         [] Mode = "lvl2" -> IF l = 2 THEN AllRules(side) ELSE IF l < 2 THEN {0} ELSE {0, 1}
         [] Mode = "lvl3" -> IF l = 3 THEN AllRules(side) ELSE IF l < 3 THEN {0} ELSE {0, 2}
         [] Mode = "lvl4" -> IF l = 4 THEN AllRules(side) ELSE {0}
         [] Mode = "inst" -> IF l \in {1, 2} THEN FewRules(side) ELSE AllRules(side)

Init == /\ kind = CHOOSE k \in ModeKinds : TRUE
        /\ li = <<0, 0, 0, 0>>
        /\ ci = 1

\* Edits move to the NEXT value of one coordinate (a grid walk: every point of the
\* product is reached, with ~6 instead of ~40 outgoing transitions per state).
NextIn(S, r) == LET bigger == {x \in S : x > r} IN
                IF bigger = {} THEN r ELSE CHOOSE x \in bigger : \A y \in bigger : x <= y

SetKind  == /\ \E k \in ModeKinds \ {kind} : kind' = k
            /\ li' = <<0, 0, 0, 0>>       \* rule indices are per vocabulary: restart from "no rules"
            /\ UNCHANGED ci
SetRule(l) == /\ NextIn(LvSet(kind, l), li[l]) # li[l]
              /\ li' = [li EXCEPT ![l] = NextIn(LvSet(kind, l), li[l])]
              /\ UNCHANGED <<kind, ci>>
SetCand  == /\ ci < NCand
            /\ ci' = ci + 1
            /\ UNCHANGED <<kind, li>>
EditRule == \E l \in 1..4 : SetRule(l)
Next == SetKind \/ EditRule \/ SetCand

Spec == Init /\ [][Next]_vars

Row  == [kind |-> kind, lv |-> LvOf(kind, li), cand |-> CandList[ci]]

TypeOK == /\ kind \in ModeKinds
          /\ \A l \in 1..4 : li[l] \in LvSet(kind, l)
          /\ ci \in 1..NCand /\ NCand <= Len(CandList)

PrecedenceRespected == PrecedenceAt(kind, LvOf(kind, li), CandList[ci])
DenyOverAllow       == DenyOverAllowAt(kind, LvOf(kind, li), CandList[ci])
DenyMonotone        == DenyMonotoneAt(kind, LvOf(kind, li), CandList[ci])

\* action form of precedence: editing a rule strictly less specific than the
\* deciding one (before and after the edit) leaves the verdict unchanged
PrecedenceStep ==
  [][ \A l \in 1..4 :
        ( /\ kind' = kind /\ ci' = ci
          /\ \A m \in 1..4 : m # l => li'[m] = li[m]
          /\ LET t == Top(kind, LvOf(kind, li), CandList[ci]) IN t # 0 /\ t < l )
        => Decide(kind', LvOf(kind', li'), CandList[ci']).ok = Decide(kind, LvOf(kind, li), CandList[ci]).ok
    ]_vars

=============================================================================
