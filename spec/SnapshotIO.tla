----------------------------- MODULE SnapshotIO -----------------------------
(***************************************************************************)
(* C32 -- snapshot import and restore cannot escape or corrupt snap data.  *)
(*                                                                         *)
(* Transcription of overlord/snapshotstate/backend:                        *)
(*   import : Import / unpackVerifySnapshotImport / writeOneSnapshotFile / *)
(*            importTransaction (backend.go)                               *)
(*   restore: Reader.Restore / moveFile (reader.go),                       *)
(*            RestoreState.Revert / Cleanup (restorestate.go)              *)
(*                                                                         *)
(* Two independent machines in one module; `mode` selects which one a      *)
(* behaviour runs.  Each machine keeps its state in one record (`im`, `r`) *)
(* so that the step functions can be reused verbatim by TraceSnapshotIO.   *)
(***************************************************************************)
EXTENDS Naturals, Sequences, FiniteSets, TLC

CONSTANTS
    MaxMembers,     \* import: number of tar members explored per stream
    Keys, Befores, Afters, Types, Bodies,   \* import: the adversary's alphabet for member names / types / bodies
    REntries,       \* restore: set of sets of entries explored, e.g. {{"sys"}, {"sys","usr"}}
    PreClasses,     \* restore: classes of pre-existing data per slot
    Corruptions,    \* restore: archive corruption classes per entry
    Faults          \* restore: TRUE = a fault may additionally strike after ANY micro step (design check)

VARIABLES mode, im, r
vars == <<mode, im, r>>

-----------------------------------------------------------------------------
(*                                 IMPORT                                  *)
-----------------------------------------------------------------------------
(* Paths are relative to the snapshots directory SD: a record [up, path]   *)
(* where `up` counts how many levels ABOVE SD the path starts (0 = inside) *)
(* and `path` is the sequence of names below that point.                   *)
(* A member is [kind, before, key, after, type, body, cut]:                *)
(*   kind "file":   name = before/.../7_<key>/after/...  (first '_' in the *)
(*                  component "7_<key>")                                   *)
(*   kind "content" / "export": content.json / export.json                 *)
(*   kind "nous":   name = before/.../<key> without any underscore         *)
(* body (regular files): zip = a valid snapshot file, trunc = a proper     *)
(* prefix of it, garbage = longer than zip, empty; for content.json:       *)
(* cjnew / cjdup (content hash of an existing set) / cjbad (not JSON).     *)
(* cut = the stream ends in the middle of this member's body.              *)

ImportID == "5"
LockName == ImportID \o "_importing"
OtherSet == "3_s.zip"
SubDirName == ImportID \o "_d"

Inside(p) == [up |-> 0, path |-> p]

\* all components of the member's name, in order
NameComps(m) == IF m.kind = "file" THEN m.before \o <<"7_" \o m.key>> \o m.after
                ELSE IF m.kind = "nous" THEN m.before \o <<m.key>>
                ELSE <<>>
\* does component i of the name END with ".." ?
EndsDotDot(m, i) ==
    LET c == NameComps(m)[i]
    IN  c = ".." \/ (m.kind = "file" /\ i = Len(m.before) + 1 /\ m.key = "..")
\* strings.Contains(header.Name, "../")
HasDotDotSlash(m) == \E i \in 1..(Len(NameComps(m)) - 1) : EndsDotDot(m, i)

\* path.Join(dirs.SnapshotsDir, "<id>_" + rest) : lexical Clean
RECURSIVE CleanFrom(_, _)
CleanFrom(acc, comps) ==
    IF comps = <<>> THEN acc
    ELSE LET c == Head(comps)
             nxt == IF c = "." \/ c = "" THEN acc
                    ELSE IF c = ".."
                         THEN IF acc.path = <<>> THEN [acc EXCEPT !.up = @ + 1]
                              ELSE [acc EXCEPT !.path = SubSeq(@, 1, Len(@) - 1)]
                         ELSE [acc EXCEPT !.path = Append(@, c)]
         IN  CleanFrom(nxt, Tail(comps))

Target(m) == CleanFrom(Inside(<<ImportID \o "_" \o m.key>>), m.after)

\* content of a file after writing `new` over `old` WITHOUT truncation (O_CREATE|O_RDWR)
Over(old, new) ==
    CASE old = "absent" -> new
      [] old = "empty"  -> new
      [] old = "zip"    -> IF new = "garbage" THEN "garbage" ELSE "zip"
      [] old = "trunc"  -> IF new \in {"zip", "garbage"} THEN new ELSE "trunc"
      [] old = "garbage" -> IF new = "garbage" THEN "garbage" ELSE "other"
      [] OTHER -> "other"

ClassAt(files, p) == IF p \in DOMAIN files THEN files[p] ELSE "absent"
IsDir(files, p)   == p = <<>> \/ ClassAt(files, p) = "dir"
Parent(p)         == SubSeq(p, 1, Len(p) - 1)

Put(files, p, c)  == [q \in DOMAIN files \cup {p} |-> IF q = p THEN c ELSE files[q]]
Drop(files, ps)   == [q \in DOMAIN files \ ps |-> files[q]]

IFail(s, cls) == [s EXCEPT !.pc = "failed", !.err = cls]

\* effective body of a member: non-regular members carry no data
EffBody(m) == IF m.type = "reg" THEN m.body ELSE "empty"
\* what is on disk when the stream ends in the middle of the body
Partial(b) == IF b \in {"zip", "trunc"} THEN "trunc" ELSE IF b = "empty" THEN "empty" ELSE "other"

\* writeOneSnapshotFile + backendOpen + Check for one member
IWrite(s, m) ==
    LET t == Target(m) IN
    IF t.up > 0
    THEN \* lexically outside SD (unreachable unless the "../" check is weakened): the write happens
         IFail([s EXCEPT !.touched = @ \cup {t}], "error")
    ELSE IF IsDir(s.files, t.path) \/ ~IsDir(s.files, Parent(t.path))
    THEN IFail(s, "error")                       \* EISDIR / ENOENT / ENOTDIR: nothing written
    ELSE LET b   == IF m.cut THEN Partial(EffBody(m)) ELSE EffBody(m)
             c   == Over(ClassAt(s.files, t.path), b)
             s1  == [s EXCEPT !.files = Put(@, t.path, c), !.touched = @ \cup {t}]
         IN  IF m.cut THEN IFail(s1, "error")    \* io.Copy: unexpected EOF
             ELSE IF c = "zip" THEN [s1 EXCEPT !.nnames = @ + 1]   \* Open + Check succeed
             ELSE IFail(s1, "error")             \* not a valid snapshot

\* one iteration of the loop in unpackVerifySnapshotImport
IMemberStep(s, m) ==
    IF m.type = "dir" THEN IFail(s, "error")                 \* "unexpected directory in import file"
    ELSE IF HasDotDotSlash(m) THEN IFail(s, "error")         \* "invalid filename in import file"
    ELSE IF m.kind = "content"
    THEN IF m.cut \/ m.body = "cjbad" THEN IFail(s, "error")
         ELSE IF m.body = "cjdup" /\ ~s.nodup THEN IFail(s, "dup")
         ELSE s
    ELSE IF m.kind = "export"
    THEN IF m.cut THEN IFail([s EXCEPT !.export = TRUE], "error") ELSE [s EXCEPT !.export = TRUE]
    ELSE IF m.kind = "nous" THEN IFail(s, "error")           \* "unexpected filename in import stream"
    ELSE IWrite(s, m)

\* tr.Cancel(): remove <id>_*.zip directly in SD, then the lock
ZipKeys == {"a.zip"}          \* the keys of the alphabet that end in ".zip" (glob "<id>_*.zip")
TopZipPaths(files) == {p \in DOMAIN files : Len(p) = 1 /\ p[1] \in {ImportID \o "_" \o k : k \in ZipKeys}}
ICancel(s) == [s EXCEPT !.files = Drop(@, TopZipPaths(@) \cup {<<LockName>>}), !.pc = "done"]
\* tr.Commit(): remove the lock
ICommit(s) == [s EXCEPT !.files = Drop(@, {<<LockName>>}), !.pc = "done"]

\* Import() up to the first member
IStartState(nodup, lockheld, subdir) ==
    LET f0 == [p \in {<<OtherSet>>} |-> "zip"]
        f1 == IF subdir THEN Put(f0, <<SubDirName>>, "dir") ELSE f0
        f2 == IF lockheld THEN Put(f1, <<LockName>>, "empty") ELSE f1
    IN  [pc |-> "idle", files |-> f2, files0 |-> f2, export |-> FALSE, nnames |-> 0, err |-> "none",
         touched |-> {}, nodup |-> nodup, n |-> 0]
IBegin(s) ==
    IF <<LockName>> \in DOMAIN s.files
    THEN [s EXCEPT !.pc = "done", !.err = "error"]            \* "already in progress": no Cancel is deferred
    ELSE [s EXCEPT !.pc = "reading", !.files = Put(@, <<LockName>>, "empty")]

\* the stream ends: "clean" (tar end marker) or "cuthdr" (cut inside a header); then Commit or Cancel
IEndStream(s, end) ==
    IF s.pc = "failed" THEN ICancel(s)
    ELSE IF end = "cuthdr" THEN ICancel(IFail(s, "error"))
    ELSE IF ~s.export THEN ICancel(IFail(s, "error"))        \* "no export.json file in uploaded data"
    ELSE ICommit(s)

FileMembers == {[kind |-> "file", before |-> b, key |-> k, after |-> a, type |-> t, body |-> bd, cut |-> c] :
                  b \in Befores, k \in Keys, a \in Afters, t \in Types, bd \in Bodies, c \in BOOLEAN}
SpecialMembers ==
    {[kind |-> "content", before |-> <<>>, key |-> "", after |-> <<>>, type |-> "reg", body |-> bd, cut |-> c] :
        bd \in {"cjnew", "cjdup", "cjbad"}, c \in BOOLEAN}
    \cup {[kind |-> "export", before |-> <<>>, key |-> "", after |-> <<>>, type |-> "reg", body |-> "export", cut |-> c] :
        c \in BOOLEAN}
    \cup {[kind |-> "nous", before |-> b, key |-> "plain.zip", after |-> <<>>, type |-> "reg", body |-> "zip", cut |-> FALSE] :
        b \in Befores}
Members == {m \in FileMembers : (m.type # "reg" => m.body = "empty" /\ ~m.cut) /\ (m.cut => m.body \in {"zip", "trunc"})}
           \cup SpecialMembers

-----------------------------------------------------------------------------
(*                                 RESTORE                                 *)
-----------------------------------------------------------------------------
(* Entries: "sys" (archive.tgz -> /var/snap/<snap>/) and "usr" (user/u1.tgz *)
(* -> ~/snap/<snap>/).  Each has a parent directory with two slots:         *)
(* "common" and "rev" (the revision directory the data is restored into).   *)
(* Slot classes: absent | old (existing data) | oldfile (a plain file) |     *)
(* blocked (a dangling symlink: DirExists says "absent", rename onto it      *)
(* fails) | saved (the data of the snapshot).                                *)
(* Archive per entry: saved = slots that existed at save time ({} = the      *)
(* entry is not in the snapshot), corrupt in none|hash|tar|size.             *)

Slots == {"common", "rev"}

EntryOf(x) == x.e

RFailState(s) == [s EXCEPT !.pc = "error"]

Exists(c) == c \in {"old", "oldfile", "saved"}        \* osutil.DirExists(dst) (follows symlinks)

\* Deterministic micro steps of Reader.Restore for the entry in progress (s.cur), s.pc names the NEXT step
RStep(s) ==
    LET e == s.cur
        a == s.arch[e] IN
    CASE s.pc = "mkparent" ->
            IF s.parent[e] THEN [s EXCEPT !.pc = "extract"]
            ELSE [s EXCEPT !.parent[e] = TRUE, !.created = Append(@, [kind |-> "parent", e |-> e, s |-> "-"]),
                           !.pc = "extract"]
      [] s.pc = "extract" ->      \* tar --extract into the temp dir (+ zip reader's own size check)
            IF a.corrupt \in {"tar", "size"} \/ s.tarfail THEN RFailState(s) ELSE [s EXCEPT !.pc = "verify"]
      [] s.pc = "verify" ->       \* size and SHA3-384 of the archive member
            IF a.corrupt = "hash" THEN RFailState(s) ELSE [s EXCEPT !.pc = "retarget"]
      [] s.pc = "retarget" ->     \* rename <tmp>/<rev> to <tmp>/<current> when restoring into another revision
            IF s.current = "other" /\ "rev" \notin a.saved THEN RFailState(s) ELSE [s EXCEPT !.pc = "aside_common"]
      [] s.pc \in {"aside_common", "aside_rev"} ->      \* moveFile: move existing data aside
            LET sl == IF s.pc = "aside_common" THEN "common" ELSE "rev"
                nx == IF sl = "common" THEN "in_common" ELSE "in_rev"
                c  == s.slots[e][sl]
            IN  IF sl \notin a.saved THEN [s EXCEPT !.pc = IF sl = "common" THEN "aside_rev" ELSE "entrydone"]
                ELSE IF Exists(c)
                THEN [s EXCEPT !.slots[e][sl] = "absent", !.aside[e] = @ \cup {[s |-> sl, c |-> c]},
                               !.moved = Append(@, [e |-> e, s |-> sl, c |-> c]), !.pc = nx]
                ELSE [s EXCEPT !.pc = nx]
      [] s.pc \in {"in_common", "in_rev"} ->            \* moveFile: rename the restored directory in
            LET sl == IF s.pc = "in_common" THEN "common" ELSE "rev"
                c  == s.slots[e][sl]
            IN  IF c # "absent" THEN RFailState(s)      \* rename onto a (dangling) symlink: ENOTDIR
                ELSE [s EXCEPT !.slots[e][sl] = "saved",
                               !.created = Append(@, [kind |-> "slot", e |-> e, s |-> sl]),
                               !.pc = IF sl = "common" THEN "aside_rev" ELSE "entrydone"]
      [] OTHER -> s

\* RestoreState.Revert: remove what was created (in order), then move back what was moved aside (in order)
RECURSIVE RemoveCreated(_, _)
RemoveCreated(s, cs) ==
    IF cs = <<>> THEN s
    ELSE LET c == Head(cs)
             s1 == IF c.kind = "parent"
                   THEN [s EXCEPT !.parent[c.e] = FALSE, !.slots[c.e] = [sl \in Slots |-> "absent"], !.aside[c.e] = {}]
                   ELSE [s EXCEPT !.slots[c.e][c.s] = "absent"]
         IN  RemoveCreated(s1, Tail(cs))
RECURSIVE MoveBack(_, _)
MoveBack(s, ms) ==
    IF ms = <<>> THEN s
    ELSE LET m == Head(ms)
             it == [s |-> m.s, c |-> m.c]
             s1 == IF it \in s.aside[m.e] /\ s.slots[m.e][m.s] = "absent"
                   THEN [s EXCEPT !.slots[m.e][m.s] = m.c, !.aside[m.e] = @ \ {it}]
                   ELSE s                         \* rename fails (logged only)
         IN  MoveBack(s1, Tail(ms))
Revert(s) == MoveBack(RemoveCreated(s, s.created), s.moved)

\* RestoreState.Cleanup: remove what was moved aside
RECURSIVE DropAsides(_, _)
DropAsides(s, ms) ==
    IF ms = <<>> THEN s
    ELSE LET m == Head(ms) IN DropAsides([s EXCEPT !.aside[m.e] = @ \ {[s |-> m.s, c |-> m.c]}], Tail(ms))
Cleanup(s) == DropAsides(s, s.moved)

\* run the entry in progress to its end (entrydone) or to the first error
RECURSIVE RunEntry(_)
RunEntry(s) == IF s.pc \in {"entrydone", "error", "idle"} THEN s ELSE RunEntry(RStep(s))

\* the deferred function of Restore: on error Revert; all entries done => restored
RSettle(s) ==
    IF s.pc = "error" THEN [Revert(s) EXCEPT !.pc = "failed"]
    ELSE IF s.pc = "entrydone" /\ s.todo = {} THEN [s EXCEPT !.pc = "restored"]
    ELSE IF s.pc = "entrydone" THEN [s EXCEPT !.pc = "idle"]
    ELSE s

RBeginEntry(s, e, tarfail) == [s EXCEPT !.cur = e, !.todo = @ \ {e}, !.pc = "mkparent", !.tarfail = tarfail]

RInitState(entries, arch, slots, parent, current) ==
    [pc |-> "idle", cur |-> "-", todo |-> {e \in entries : arch[e].saved # {}},
     entries |-> entries, arch |-> arch, slots |-> slots, parent |-> parent,
     slots0 |-> slots, parent0 |-> parent,
     aside |-> [e \in entries |-> {}], created |-> <<>>, moved |-> <<>>, current |-> current, tarfail |-> FALSE]

Archives == [saved : SUBSET Slots, corrupt : Corruptions]

-----------------------------------------------------------------------------
(*                              the state machine                          *)
-----------------------------------------------------------------------------
NoIm == [pc |-> "off"]
NoR  == [pc |-> "off"]

Init ==
    \/ /\ mode = "import"
       /\ \E nd \in BOOLEAN, lh \in BOOLEAN, sd \in BOOLEAN : im = IStartState(nd, lh, sd)
       /\ r = NoR
    \/ /\ mode = "restore"
       /\ im = NoIm
       /\ \E es \in REntries :
            \E arch \in [es -> Archives], slots \in [es -> [Slots -> PreClasses]], parent \in [es -> BOOLEAN],
               cur \in {"same", "other"} :
               /\ \A e \in es : ~parent[e] => \A sl \in Slots : slots[e][sl] = "absent"
               /\ \E e \in es : arch[e].saved # {}      \* a snapshot without any archive is invalid (Open fails)
               /\ r = RInitState(es, arch, slots, parent, cur)

\* ---- import actions
ImportBegin  == mode = "import" /\ im.pc = "idle" /\ im' = IBegin(im) /\ UNCHANGED <<mode, r>>
ImportMember == /\ mode = "import" /\ im.pc = "reading" /\ im.n < MaxMembers
                /\ \E m \in Members : im' = [IMemberStep(im, m) EXCEPT !.n = im.n + 1]
                /\ UNCHANGED <<mode, r>>
ImportEndClean == mode = "import" /\ im.pc = "reading" /\ im' = IEndStream(im, "clean") /\ UNCHANGED <<mode, r>>
ImportEndCut   == mode = "import" /\ im.pc = "reading" /\ im' = IEndStream(im, "cuthdr") /\ UNCHANGED <<mode, r>>
ImportCancel   == mode = "import" /\ im.pc = "failed" /\ im' = IEndStream(im, "clean") /\ UNCHANGED <<mode, r>>

\* ---- restore actions
RestoreBegin == /\ mode = "restore" /\ r.pc = "idle" /\ r.todo # {}
                /\ \E e \in r.todo, tf \in BOOLEAN : r' = RBeginEntry(r, e, tf)
                /\ UNCHANGED <<mode, im>>
RestoreStep  == /\ mode = "restore"
                /\ r.pc \in {"mkparent", "extract", "verify", "retarget", "aside_common", "in_common", "aside_rev", "in_rev"}
                /\ r' = RStep(r) /\ UNCHANGED <<mode, im>>
RestoreFault == /\ Faults /\ mode = "restore"      \* a fault after any micro step (I/O error, cancelled context, ...)
                /\ r.pc \in {"extract", "verify", "retarget", "aside_common", "in_common", "aside_rev", "in_rev", "entrydone"}
                /\ r' = RFailState(r) /\ UNCHANGED <<mode, im>>
RestoreSettle == mode = "restore" /\ r.pc \in {"error", "entrydone"} /\ r' = RSettle(r) /\ UNCHANGED <<mode, im>>
RestoreRevertAfter  == mode = "restore" /\ r.pc = "restored" /\ r' = [Revert(r) EXCEPT !.pc = "reverted"]
                       /\ UNCHANGED <<mode, im>>
RestoreCleanupAfter == mode = "restore" /\ r.pc = "restored" /\ r' = [Cleanup(r) EXCEPT !.pc = "cleaned"]
                       /\ UNCHANGED <<mode, im>>

Next == \/ ImportBegin \/ ImportMember \/ ImportEndClean \/ ImportEndCut \/ ImportCancel
        \/ RestoreBegin \/ RestoreStep \/ RestoreFault \/ RestoreSettle
        \/ RestoreRevertAfter \/ RestoreCleanupAfter

Spec == Init /\ [][Next]_vars

-----------------------------------------------------------------------------
(*                                 properties                              *)
-----------------------------------------------------------------------------
\* THE PROPERTY (import): nothing is created or modified outside the snapshots directory:
\* every touched path lies strictly inside SD
Confined == mode = "import" => \A t \in im.touched : t.up = 0 /\ t.path # <<>>

\* other snapshot sets are never touched
OtherSetsUntouched == mode = "import" => ClassAt(im.files, <<OtherSet>>) = "zip"

\* after a failed import no snapshot file of this set id is left directly in SD, and the lock is gone
\* (stronger than the statement; what tr.Cancel promises)
FailedImportCleansZips ==
    (mode = "import" /\ im.pc = "done" /\ im.err # "none" /\ <<LockName>> \notin DOMAIN im.files0) =>
        TopZipPaths(im.files) = {} /\ <<LockName>> \notin DOMAIN im.files

RSame(s) == s.slots = s.slots0 /\ s.parent = s.parent0 /\ \A e \in s.entries : s.aside[e] = {}

\* THE PROPERTY (restore, failure): the snap's existing data is exactly as before
FailedRestoreIsIdentity == (mode = "restore" /\ r.pc = "failed") => RSame(r)

\* THE PROPERTY (restore, corrupt data): a snapshot whose data does not match must not restore successfully
CorruptNeverRestores ==
    (mode = "restore" /\ r.pc \in {"restored", "reverted", "cleaned"}) =>
        \A e \in r.entries : r.arch[e].saved # {} => r.arch[e].corrupt = "none"

\* THE PROPERTY (restore, success): every saved directory is reproduced, nothing else changes
Reproduced(s) == \A e \in s.entries : \A sl \in Slots :
                    s.slots[e][sl] = IF sl \in s.arch[e].saved THEN "saved" ELSE s.slots0[e][sl]
SuccessReproducesSaved == (mode = "restore" /\ r.pc \in {"restored", "cleaned"}) => Reproduced(r)
CleanupRemovesAsides   == (mode = "restore" /\ r.pc = "cleaned") => \A e \in r.entries : r.aside[e] = {}

\* a later Revert of a successful restore gives the old data back
RevertAfterSuccessIsIdentity == (mode = "restore" /\ r.pc = "reverted") => RSame(r)

\* the slots never hold anything but the classes we know (sanity)
RTypeOK == mode = "restore" =>
              \A e \in r.entries : \A sl \in Slots : r.slots[e][sl] \in PreClasses \cup {"saved", "absent"}
=============================================================================
