CONSTANTS
  MaxCore = 4
  MaxPad = 2
INIT TInit
NEXT TNext
INVARIANTS
  InvNonRootReadOnly
  InvHelpOrFail
  InvRootUnrestricted
  InvGateOnlyFilters
POSTCONDITION Accepted
CHECK_DEADLOCK FALSE
