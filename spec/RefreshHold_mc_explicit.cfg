\* explicit durations allowed (no production caller passes one): the 90-day bound still holds;
\* OtherBound is deliberately NOT listed here (see RefreshHold_mc_explicit_other.cfg)
CONSTANTS
  Snaps <- MCSnaps2
  Gaters <- MCGaters
  HoldSets <- MCHoldSetsQ
  Ticks <- MCTicksQ
  SysDurs <- MCSysDurs
  ExplicitDurs <- MCDurs
  MaxSteps = 3
INIT Init
NEXT Next
CHECK_DEADLOCK FALSE
INVARIANTS TypeOK GlobalBound UntilBound SystemSurvivesRefresh SystemLasts
