SPECIFICATION Spec
CONSTANTS
    MaxRev = 2
    MaxOps = 4
    InstallRevs <- Rev1
    AttrOpts <- AttrPlain
    RetainOpts <- RetNone
    CfgOpts <- Cfg0
    OnClassicOpts <- BoolF
    BootOpts <- BootNone
    KernelOpts <- BoolF
    OpFaults = FALSE
INVARIANTS
    TypeOK
    C10_Restored
    C10_BlockRestored
CONSTRAINT StateConstraint
CHECK_DEADLOCK FALSE
