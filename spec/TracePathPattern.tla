---------------------------- MODULE TracePathPattern ----------------------------
(* C37 I->T: observations of the real code (one JSON object per line of IOEnv.VERIF_TRACE) are
   checked against the reference; the per-case verdicts are written to IOEnv.VERIF_OUT first (so
   that a rejected case can be named), then TLC ASSUMEs that no case is bad.

   kind = "match": seeded random patterns beyond the exhaustive bound
       [case, ast, paths (code sequences), ok (ParsePathPattern accepted), n (NumVariants),
        calls (RenderAllVariants callbacks), m (PathPatternMatches per path: 0/1, 2 = error)]
     must satisfy  ok = Accepted(ast),  n = calls = NumVariants(ast),  m[j] = RefMatch(ast, paths[j]).

   kind = "set": precedence among variants that all match a path
       [case, k (number of variants), cmp (k x k matrix of PatternVariant.Compare: -1/0/1,
        2 = error), same (k x k: 1 iff the two variants are the same string),
        perms (permutations of 1..k), winners (index chosen by HighestPrecedencePattern when the
        variants are given in that order, 0 = error)]
     must satisfy: cmp is a strict weak order whose ties are exactly the identical variants
     (irreflexive, asymmetric, transitive, incomparability = identity), and every permutation's
     winner is the maximum of cmp -- so the choice does not depend on the order given. *)
EXTENDS PathPattern

Bit(b) == IF b THEN 1 ELSE 0

MatchRow(o) ==
    LET cnt == NumVariants(o.ast)
        acc == cnt <= Limit
        ex == IF acc THEN Expand(o.ast) ELSE <<>>
    IN  [kind |-> "match", case |-> o.case, exp_ok |-> acc, exp_n |-> cnt,
         exp_m |-> IF acc THEN Force([j \in 1..Len(o.paths) |-> Bit(\E i \in 1..Len(ex) : PPM(ex[i], o.paths[j]))])
                   ELSE <<>>,
         got_ok |-> o.ok, got_n |-> o.n, got_calls |-> o.calls, got_m |-> o.m]
MatchBad(r) ==
    \/ r.exp_ok # r.got_ok
    \/ r.got_ok /\ (r.exp_n # r.got_n \/ r.got_n # r.got_calls \/ r.got_n > Limit)
    \/ r.got_ok /\ r.exp_m # r.got_m

PrecRow(o) ==
    LET K == 1..o.k
        c == o.cmp
        irreflexive == \A i \in K : c[i][i] = 0
        noerror == \A i, j \in K : c[i][j] \in {-1, 0, 1}
        asymmetric == \A i, j \in K : c[i][j] = -c[j][i]
        transitive == \A i, j, l \in K : (c[i][j] = 1 /\ c[j][l] = 1) => c[i][l] = 1
        tiesidentical == \A i, j \in K : (c[i][j] = 0) <=> (o.same[i][j] = 1)
        Maxima == {i \in K : \A j \in K : o.same[i][j] = 1 \/ c[i][j] = 1}
        winnersmax == \A p \in 1..Len(o.perms) : o.winners[p] \in Maxima
        oneclass == \A i, j \in Maxima : o.same[i][j] = 1
    IN  [kind |-> "set", case |-> o.case, noerror |-> noerror, irreflexive |-> irreflexive, asymmetric |-> asymmetric,
         transitive |-> transitive, tiesidentical |-> tiesidentical, winnersmax |-> winnersmax,
         oneclass |-> oneclass /\ Maxima # {}]
PrecBad(r) == ~(r.noerror /\ r.irreflexive /\ r.asymmetric /\ r.transitive /\ r.tiesidentical /\ r.winnersmax /\ r.oneclass)

Check(obs) ==
    LET rows == Force([i \in 1..Len(obs) |-> IF obs[i].kind = "match" THEN MatchRow(obs[i]) ELSE PrecRow(obs[i])])
    IN  JsonSerialize(IOEnv.VERIF_OUT,
                      [checked |-> Len(obs),
                       bad |-> SelectSeq(rows, LAMBDA r : IF r.kind = "match" THEN MatchBad(r) ELSE PrecBad(r))])

TRInit == x = 1
ASSUME Check(ndJsonDeserialize(IOEnv.VERIF_TRACE))
ASSUME JsonDeserialize(IOEnv.VERIF_OUT).bad = <<>>
=============================================================================
