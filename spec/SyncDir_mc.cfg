\* C23 quick: 2 managed names + 1 unmanaged, all entry kinds, <=1 faulty desired entry, reject path included
SPECIFICATION Spec
CONSTANTS
  Managed = {"m1", "m2"}
  Unmanaged = {"u1"}
  Contents = {"a", "b"}
  Perms = {"644", "600"}
  LinkTargets = {"u1", "nx"}
  BadKinds = {"missing"}
  UnmanagedTok = {"none", "f:a:644", "f:b:600", "ndir"}
  DesExtra = {"u1"}
  MaxBad = 1
INVARIANTS TypeOK Post NeverTouchUnmanaged EraseForgets
PROPERTY StepInSucc
CHECK_DEADLOCK FALSE
