INIT Init
NEXT Next
