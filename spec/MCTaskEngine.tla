--------------------------- MODULE MCTaskEngine ---------------------------
(* Bounded instances of TaskEngine: all forward DAGs x lane assignments x undo-handler presence. *)
EXTENDS TaskEngine

CONSTANTS LaneChoices,   \* set of lane sequences a task may have, e.g. {<<0>>, <<1>>, <<2>>, <<1,2>>}
          UndoChoices    \* {TRUE, FALSE} or {TRUE}

MCInit ==
  /\ waits \in {w \in [Tasks -> SUBSET Tasks] : \A t \in Tasks : w[t] \subseteq 1..(t-1)}
  /\ lanes \in [Tasks -> LaneChoices]
  /\ hasUndo \in [Tasks -> UndoChoices]
  /\ chgOf = [t \in Tasks |-> 1]
  /\ kind = [t \in Tasks |-> "neutral"]
  /\ snap = [t \in Tasks |-> 0]
  /\ InitState

\* C07: two changes in flight, every mix of serialized kinds, hooks of two snaps
KindChoices == {"neutral", "hook", "iface", "prereq", "gadget"}
MCInitKinds ==
  /\ chgOf = [t \in Tasks |-> IF t <= (N + 1) \div 2 THEN 1 ELSE 2]
  /\ waits \in {w \in [Tasks -> SUBSET Tasks] :
                 \A t \in Tasks : w[t] \subseteq {u \in 1..(t-1) : chgOf[u] = chgOf[t]} /\ Cardinality(w[t]) <= 1}
  /\ lanes = [t \in Tasks |-> <<0>>]
  /\ hasUndo = [t \in Tasks |-> TRUE]
  /\ kind \in [Tasks -> KindChoices]
  /\ snap \in {sn \in [Tasks -> {1, 2}] : \A t \in Tasks : kind[t] # "hook" => sn[t] = 1}
  /\ InitState
MCSpecKinds == MCInitKinds /\ [][Next]_vars

\* Any acyclic dependency relation, not only "later tasks wait for earlier ones": the change's task order
\* (creation order) is then independent of the dependency order. Used to characterise the known finding
\* "Change.Abort/AbortUnreadyLanes panics when a pending task precedes a Done task" (known_findings.json):
\* panicked states are terminal (the real code panics), everything else must still hold, and the panic
\* must be reachable only through a user/prune abort, never through the engine's own failure handling.
RECURSIVE ReachFrom(_, _)
ReachFrom(w, S) == LET S2 == S \cup UNION {w[t] : t \in S} IN IF S2 = S THEN S ELSE ReachFrom(w, S2)
Acyclic(w) == \A t \in Tasks : t \notin ReachFrom(w, w[t])
MCInitAnyOrder ==
  /\ waits \in {w \in [Tasks -> SUBSET Tasks] : (\A t \in Tasks : t \notin w[t]) /\ Acyclic(w)}
  /\ lanes \in [Tasks -> LaneChoices]
  /\ hasUndo \in [Tasks -> UndoChoices]
  /\ chgOf = [t \in Tasks |-> 1]
  /\ kind = [t \in Tasks |-> "neutral"]
  /\ snap = [t \in Tasks |-> 0]
  /\ InitState
MCSpecAnyOrder == MCInitAnyOrder /\ [][~panicked /\ Next]_vars
PanicOnlyByAbort == panicked => aborted # {}
AnyOrderOK == panicked \/ (C01 /\ C02 /\ C03_ReadyOnce /\ C03_ReadyIffAllReady /\ C04_NoRedo)

MCSpec == MCInit /\ [][Next]_vars
MCLive == MCInit /\ [][Next]_vars /\ Fairness

Lanes1 == {<<0>>}
Lanes2 == {<<0>>, <<1>>}
Lanes4 == {<<0>>, <<1>>, <<2>>, <<1, 2>>}
Lanes3 == {<<0>>, <<1>>, <<1, 2>>}
Lanes4b == {<<1>>, <<2>>, <<1, 2>>, <<2, 1>>}
Lanes5 == {<<0>>, <<1>>, <<2>>, <<1, 2>>, <<2, 1>>}
BoolBoth == {TRUE, FALSE}
BoolTrue == {TRUE}
=============================================================================
