--------------------------- MODULE MCTaskEngine ---------------------------
(* Bounded instances of TaskEngine: all forward DAGs x lane assignments x undo-handler presence. *)
EXTENDS TaskEngine

CONSTANTS LaneChoices,   \* set of lane sequences a task may have, e.g. {<<0>>, <<1>>, <<2>>, <<1,2>>}
          UndoChoices    \* {TRUE, FALSE} or {TRUE}

MCInit ==
  /\ waits \in {w \in [Tasks -> SUBSET Tasks] : \A t \in Tasks : w[t] \subseteq 1..(t-1)}
  /\ lanes \in [Tasks -> LaneChoices]
  /\ hasUndo \in [Tasks -> UndoChoices]
  /\ chgOf = [t \in Tasks |-> 1]
  /\ kind = [t \in Tasks |-> "neutral"]
  /\ snap = [t \in Tasks |-> 0]
  /\ InitState

\* C07: two changes in flight, every mix of serialized kinds, hooks of two snaps
KindChoices == {"neutral", "hook", "iface", "prereq", "gadget"}
MCInitKinds ==
  /\ chgOf = [t \in Tasks |-> IF t <= (N + 1) \div 2 THEN 1 ELSE 2]
  /\ waits \in {w \in [Tasks -> SUBSET Tasks] :
                 \A t \in Tasks : w[t] \subseteq {u \in 1..(t-1) : chgOf[u] = chgOf[t]} /\ Cardinality(w[t]) <= 1}
  /\ lanes = [t \in Tasks |-> <<0>>]
  /\ hasUndo = [t \in Tasks |-> TRUE]
  /\ kind \in [Tasks -> KindChoices]
  /\ snap \in {sn \in [Tasks -> {1, 2}] : \A t \in Tasks : kind[t] # "hook" => sn[t] = 1}
  /\ InitState
MCSpecKinds == MCInitKinds /\ [][Next]_vars

MCSpec == MCInit /\ [][Next]_vars
MCLive == MCInit /\ [][Next]_vars /\ Fairness

Lanes1 == {<<0>>}
Lanes2 == {<<0>>, <<1>>}
Lanes4 == {<<0>>, <<1>>, <<2>>, <<1, 2>>}
Lanes3 == {<<0>>, <<1>>, <<1, 2>>}
Lanes5 == {<<0>>, <<1>>, <<2>>, <<1, 2>>, <<2, 1>>}
BoolBoth == {TRUE, FALSE}
BoolTrue == {TRUE}
=============================================================================
