\* C23 binding domain: the widest one (superset of both model-checking configs)
INIT TInit
NEXT TNext
CONSTANTS
  Managed = {"m1", "m2", "m3"}
  Unmanaged = {"u1"}
  Contents = {"a", "b"}
  Perms = {"644", "600"}
  LinkTargets = {"u1", "nx"}
  BadKinds = {"missing", "mode", "pipe"}
  UnmanagedTok = {"none", "f:a:644", "f:b:600", "ndir"}
  DesExtra = {"u1"}
  MaxBad = 1
CHECK_DEADLOCK FALSE
