--------------------------- MODULE RefreshTimerMC ---------------------------
(* Exhaustive model of RefreshTimer.tla with small abstract timers.           *)
EXTENDS Integers, FiniteSets, TLC

CONSTANTS TimeBound,     \* the clock runs 0..TimeBound
          MCMaxP, MCHour, MCRetry,
          MCScheds       \* the timers that can be configured: a subset of {"A", "B", "C"}

W(s, e) == [s |-> s, e |-> e]

\* two abstract timers: "A" has a point window and two intervals, "B" one early point and a late interval
WinTable == [A |-> {W(1, 2), W(4, 4), W(6, 7)},
             B |-> {W(3, 3), W(7, 9)},
             C |-> {}]                       \* a timer whose windows are all beyond the horizon
MCWinOf(s, lo, hi) == {w \in WinTable[s] : w.e >= lo /\ w.s <= hi}

VARIABLES now, sched, lastRefresh, holdUntil, inFlight, nextRefresh, lastSched, lastAttempt, ensured, mon

INSTANCE RefreshTimer WITH MaxP <- MCMaxP, Hour <- MCHour, Retry <- MCRetry, None <- -1, NoSched <- "none", WinOf <- MCWinOf

Delays == 0..(MCMaxP + MCHour + 1)
Holds  == {-1} \cup 1..(TimeBound + 2)      \* incl. "forever" = beyond the horizon

MCInit == \E s \in MCScheds : Init(s)

\* one Ensure pass per tick (the ensure loop is at least as fine as the clock)
DoEnsureInFlight        == ~ensured /\ EnsureInFlight
DoEnsureHeld            == ~ensured /\ \E d1 \in Delays : EnsureHeld(d1)
DoEnsureWait            == ~ensured /\ \E d1, d2 \in Delays : EnsureWait(d1, d2)
DoEnsureMeteredSkip     == ~ensured /\ \E d1, d2 \in Delays : EnsureMeteredSkip(d1, d2)
DoEnsureTooSoon         == ~ensured /\ \E d1, d2 \in Delays : EnsureTooSoon(d1, d2)
DoEnsureLaunchOK        == ~ensured /\ \E d1, d2 \in Delays, chg \in BOOLEAN : EnsureLaunch(d1, d2, "ok", chg, 0)
DoEnsureLaunchNetErr    == ~ensured /\ \E d1, d2 \in Delays : EnsureLaunch(d1, d2, "neterr", FALSE, 0)
DoEnsureLaunchHeld      == ~ensured /\ \E d1, d2 \in Delays, h \in Holds : EnsureLaunch(d1, d2, "held", FALSE, h)
DoTick                  == now < TimeBound /\ Tick(1)
\* the environment moves between the tick and the Ensure pass of that tick
DoChangeDone            == ~ensured /\ ChangeDone
DoExternalInFlight      == ~ensured /\ ExternalInFlight
DoSetHold               == ~ensured /\ \E h \in {-1, now + 1, now + 2, TimeBound + 2} : h # holdUntil /\ SetHold(h)
DoScheduleChanged       == ~ensured /\ \E s \in MCScheds : ScheduleChanged(s)
DoRestart               == ~ensured /\ nextRefresh # -1 /\ Restart
DoSetLastRefresh        == ~ensured /\ now # lastRefresh /\ SetLastRefresh(now)    \* e.g. a manual refresh of everything

MCNext ==
    \/ DoEnsureInFlight \/ DoEnsureHeld \/ DoEnsureWait \/ DoEnsureMeteredSkip \/ DoEnsureTooSoon
    \/ DoEnsureLaunchOK \/ DoEnsureLaunchNetErr \/ DoEnsureLaunchHeld
    \/ DoTick \/ DoChangeDone \/ DoExternalInFlight \/ DoSetHold \/ DoScheduleChanged \/ DoRestart
    \/ DoSetLastRefresh

MCSpec == MCInit /\ [][MCNext]_vars
=============================================================================
