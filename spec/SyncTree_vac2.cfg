\* C23 tree variant: base + 1 sub-directory (monitor that must be violated), 1 managed + 1 unmanaged name per directory, <=1 faulty desired entry
SPECIFICATION TSpec
CONSTANTS
  SubDirs = {"s1"}
  TreeEntryTok = {"none", "f:a:644", "f:a:600"}
  Managed = {"m1"}
  Unmanaged = {"u1"}
  Contents = {"a"}
  Perms = {"644", "600"}
  LinkTargets = {}
  BadKinds = {"missing"}
  UnmanagedTok = {"none", "f:a:644"}
  DesExtra = {}
  MaxBad = 1
INVARIANTS NoUnrelatedDirRemoved
CHECK_DEADLOCK FALSE
