---------------------------- MODULE TraceRevEpoch ----------------------------
(* C35 I->T: observations of the real snap.Revision / snap.Epoch code on seeded random inputs beyond
   the exhaustive bound (one JSON object per line: case, kind, the input, got = the real results)
   must equal the reference of RevEpoch.
     kind "rev"    n                      got: String(), MarshalJSON, YAML scalar (code sequences), and what
                                               the three readers give back
     kind "revstr" s (codes)              got: ParseRevision(s), JSON string token "s", bare JSON token s
     kind "epoch"  e, o (raw epochs)      got: Validate, String, MarshalJSON, CanRead(e,o), CanRead(o,e),
                                               CanRead(e,e), Unmarshal(Marshal(e)), and the structured
                                               document {"read": e.r, "write": e.w} (nil = absent) read as JSON / YAML
     kind "short"  s (codes)              got: the short form read by snap.E and as a JSON string
   The per-case verdicts are written to IOEnv.VERIF_OUT first (so that a rejected case can be named),
   then TLC ASSUMEs that every observation equals the reference.
   (TLC re-evaluates function bodies and LET definitions that depend on an operator parameter on every
   use: every row is built exactly once, and the verdict is read back from the file.) *)
EXTENDS RevEpoch

Exp(o) ==
    CASE o.kind = "rev" ->
           [s |-> RevString(o.n), json |-> RevJSON(o.n), yaml |-> RevYAMLScalar(o.n),
            back |-> IsRev(o.n), jback |-> IsRev(o.n), yback |-> IsRev(o.n)]
      [] o.kind = "revstr" ->
           [rev |-> RevParse(o.s), jq |-> RevFromJSON(Quote(o.s)), bare |-> RevFromJSON(o.s)]
      [] o.kind = "epoch" ->
           [valid |-> ValidRaw(o.e), str |-> EpochString(o.e), json |-> EpochJSON(o.e),
            canread |-> CanRead(o.e, o.o), canread_rev |-> CanRead(o.o, o.e), self |-> CanRead(o.e, o.e),
            rt |-> Flat(ParseStructured(MarshalDoc(o.e).r, MarshalDoc(o.e).w)),
            doc |-> Flat(ParseStructured(o.e.r, o.e.w)), ydoc |-> Flat(ParseStructured(o.e.r, o.e.w))]
      [] o.kind = "short" ->
           [e |-> Flat(ParseShort(o.s)), json |-> Flat(ParseShort(o.s))]

\* the laws of the statement, evaluated on the REAL results of an observation
LawsOnReal(o) ==
    CASE o.kind = "rev" -> o.got.back = IsRev(o.n) /\ o.got.jback = IsRev(o.n) /\ o.got.yback = IsRev(o.n)
      [] o.kind = "epoch" -> /\ o.got.valid => o.got.self
                             /\ o.got.valid => (o.got.rt.ok /\ EpochEq(Ep(L(o.got.rt.r), L(o.got.rt.w)), o.e))
      [] OTHER -> TRUE

Check(obs) ==
    LET rows == [i \in 1..Len(obs) |->
                   [case |-> obs[i].case, kind |-> obs[i].kind, exp |-> Exp(obs[i]), got |-> obs[i].got,
                    laws |-> LawsOnReal(obs[i])]]
    IN  JsonSerialize(IOEnv.VERIF_OUT,
                      [checked |-> Len(obs), bad |-> SelectSeq(rows, LAMBDA r : r.exp # r.got \/ ~r.laws)])

TRInit == x = <<"rev", 1>>
ASSUME Check(ndJsonDeserialize(IOEnv.VERIF_TRACE))
\* every observation equals the reference
ASSUME JsonDeserialize(IOEnv.VERIF_OUT).bad = <<>>
=============================================================================
