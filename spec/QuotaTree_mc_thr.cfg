\* threads only: 4 groups, depth 3, limits unset/0..4 (0 = explicit zero request)
SPECIFICATION Spec
CONSTANTS
  MaxGroups = 4
  MaxDepth = 3
  MaxRoots = 1
  NCPU = 3
  MemVals = {}
  ThrVals = {0, 1, 2, 3, 4}
  CpuCounts = {}
  CpuPcts = {}
  Cores = {}
  OtherVals = {TRUE}
  Paths = {"direct", "merged"}
VIEW View
INVARIANTS TypeOK InvMem InvThr InvSet InvFitsOrNamed NoDev
CHECK_DEADLOCK FALSE
