\* the R-operators (hook applied after every task status change) are TaskEngine's actions on TaskEngine's variables
SPECIFICATION MCRSpec
CONSTANTS
  N = 3
  NC = 1
  MaxFail = 1
  MaxRetry = 0
  MaxWaitRes = 0
  MaxTime = 1
  MaxRestart = 1
  MaxAbort = 1
  MaxBoot = 2
  MaxCalls = 1
  BoundaryChoices <- BoundNone
  ClassicChoices <- CoreOnly
  TypeChoices <- TypesSys
  DagChoices <- ChainFork
  BootAnywhere = FALSE
PROPERTIES RefinesEnsure RefinesFinish RefinesAbort
CHECK_DEADLOCK FALSE
