--------------------------- MODULE RegistryView ---------------------------
(* C30 -- registry views enforce access; read-after-write through read-write rules;
   rejected writes/unsets leave the STORED data unchanged; concurrent registry
   transactions commit in order without losing each other's writes to unrelated paths.

   What is modelled (registry/registry.go, registry/transaction.go):
     view      : sequence of flattened rules [req, stor, acc]; req/stor are sequences of
                 parts, a part is a literal key or a placeholder (element of PH); nesting
                 through `content` is flattened by Flatten exactly as parseRule does
                 (child request/storage = parent's + "." + child's).
     stored    : the committed databag (JSON tree, top level always a map)
     per transaction t: pristine[t] (copy of stored at NewTransaction / last successful
                 Commit) and deltas[t], the sequence of <<storage path, value-or-null>>
                 appended by View.Set / View.Unset through Transaction.Set/Unset.
     View.Get/Set/Unset are DEFINED FROM THE RULES: matching of the request against the
     rule's request pattern (as a prefix), placeholder binding, storage path, access
     filter, stripping of the value along the unmatched suffix (getValuesThroughPaths),
     "unused branches" check, namespacing + merging of results.
     Commit re-reads stored, applies the deltas in order, validates the result against
     the storage schema (predicate Valid, mirrors the ParseSchema text used by the
     drivers) and only then writes.

   `touched` records, for the last request, every call the view made on the databag
   (operation, storage path): this is what AccessRespected talks about, and the drivers
   observe exactly that by wrapping the real Transaction in a recording DataBag.

   Values: Lf(x) leaf (x in "1","2" ints, "s","t" strings, "null"), Mp(f) map.            *)
EXTENDS Naturals, Sequences, FiniteSets, TLC

CONSTANTS Txns,        \* transaction slots
          PH,          \* placeholder parts, e.g. {"{k}"}
          Views,       \* set of view definitions (sequences of nested rule definitions) Init chooses from
          SetMenu,     \* set of <<request, value>>
          UnsetMenu,   \* set of requests
          GetMenu,     \* set of requests (<<>> = whole view)
          ChkPaths,    \* storage paths (literal) over which TxnOrder / RejectedChangesNothing look
          MaxOps       \* requests + commits per transaction

VARIABLES view, viewdef, stored, open, pristine, deltas,
          wpaths,   \* history: storage paths (patterns) in deltas[t] since Begin / last successful commit
          nops, mon, last

vars == <<view, viewdef, stored, open, pristine, deltas, wpaths, nops, mon, last>>
mcview == <<view, viewdef, stored, open, pristine, deltas, wpaths, nops, mon>>

-----------------------------------------------------------------------
(* values *)
Absent == [t |-> "absent"]
Lf(x) == [t |-> "l", v |-> x]
EF == [k \in {} |-> Absent]
Mp(f) == [t |-> "m", m |-> f]
NullV == Lf("null")
EmptyMap == Mp(EF)
Err == [t |-> "err"]
Gone == [t |-> "gone"]
Upd(f, k, v) == [j \in DOMAIN f \cup {k} |-> IF j = k THEN v ELSE f[j]]
Remove(f, k) == [j \in DOMAIN f \ {k} |-> f[j]]
IsInt(v) == v \in {Lf("1"), Lf("2")}
IsStr(v) == v \in {Lf("s"), Lf("t")}
IsPh(part) == part \in PH

RECURSIVE Purge(_)      \* removeNilValues
Purge(x) == IF x.t = "m"
            THEN Mp([k \in {j \in DOMAIN x.m : x.m[j] # NullV} |-> Purge(x.m[k])])
            ELSE x
RECURSIVE HasNull(_)
HasNull(x) == IF x.t = "m" THEN \E k \in DOMAIN x.m : HasNull(x.m[k]) ELSE x = NullV

(* results *)
PathErr == [k |-> "patherr"]
NotFound == [k |-> "notfound"]
BadReq == [k |-> "badrequest"]
ErrR == [k |-> "error"]
Ok == [k |-> "ok"]
Val(v) == [k |-> "val", v |-> v]

-----------------------------------------------------------------------
(* JSONDataBag on a map value *)
RECURSIVE BagSet(_, _, _)
BagSet(node, p, v) ==
    IF Len(p) = 1 THEN Mp(Upd(node.m, p[1], Purge(v)))
    ELSE LET c == IF p[1] \in DOMAIN node.m /\ node.m[p[1]].t = "m" THEN node.m[p[1]]
                  ELSE EmptyMap          \* missing, or "stored value wasn't map ... so overwrite value"
         IN  Mp(Upd(node.m, p[1], BagSet(c, Tail(p), v)))

RECURSIVE BagUnset(_, _)     \* -> map value | Gone (remove the entire level) | Err (next level is not a map)
BagUnset(node, p) ==
    LET key == p[1] IN
    IF Len(p) = 1 THEN (IF IsPh(key) THEN Gone ELSE Mp(Remove(node.m, key)))
    ELSE LET keys == IF IsPh(key) THEN DOMAIN node.m ELSE {key} \cap DOMAIN node.m
             sub(k) == IF node.m[k].t # "m" THEN Err ELSE BagUnset(node.m[k], Tail(p))
         IN  IF \E k \in keys : sub(k) = Err THEN Err
             ELSE Mp([k \in DOMAIN node.m \ {j \in keys : sub(j) = Gone} |->
                        IF k \in keys THEN sub(k) ELSE node.m[k]])

RECURSIVE BagGet(_, _)       \* -> Val(v) | PathErr | ErrR
BagGet(node, p) ==
    LET key == p[1] IN
    IF ~IsPh(key) /\ key \notin DOMAIN node.m THEN PathErr
    ELSE IF Len(p) = 1 THEN (IF IsPh(key) THEN Val(node) ELSE Val(node.m[key]))
    ELSE IF IsPh(key)
    THEN LET good == {k \in DOMAIN node.m :
                        node.m[k].t = "m" /\ BagGet(node.m[k], Tail(p)).k = "val"}
         IN  IF good = {} THEN PathErr
             ELSE Val(Mp([k \in good |-> BagGet(node.m[k], Tail(p)).v]))
    ELSE IF node.m[key].t # "m" THEN ErrR          \* "cannot read path prefix ...: prefix maps to ..."
    ELSE BagGet(node.m[key], Tail(p))

(* applyDeltas: in order; a null value is an unset *)
RECURSIVE ApplyDeltas(_, _)  \* -> map value | Err
ApplyDeltas(bag, ds) ==
    IF ds = <<>> THEN bag
    ELSE LET d == Head(ds)
             nb == IF d[2] = NullV THEN BagUnset(bag, d[1]) ELSE BagSet(bag, d[1], d[2])
         IN  IF nb = Err THEN Err
             ELSE ApplyDeltas(IF nb = Gone THEN bag ELSE nb, Tail(ds))

(* Transaction.Get's databag: pristine + deltas (Err: applying failed, every Get fails) *)
TxBag(t) == ApplyDeltas(pristine[t], deltas[t])

-----------------------------------------------------------------------
(* the storage schema used by the drivers, as a predicate:
   {"schema": {"n":"int", "s":"string", "m":{"values":"int"},
               "o":{"schema":{"p":"int","q":"string"}}, "w":"any", "v":"any"}}               *)
Valid(bag) ==
    /\ DOMAIN bag.m \subseteq {"n", "s", "m", "o", "w", "v"}
    /\ "n" \in DOMAIN bag.m => IsInt(bag.m["n"])
    /\ "s" \in DOMAIN bag.m => IsStr(bag.m["s"])
    /\ "m" \in DOMAIN bag.m => /\ bag.m["m"].t = "m"
                               /\ \A k \in DOMAIN bag.m["m"].m : IsInt(bag.m["m"].m[k])
    /\ "o" \in DOMAIN bag.m => /\ bag.m["o"].t = "m"
                               /\ DOMAIN bag.m["o"].m \subseteq {"p", "q"}
                               /\ "p" \in DOMAIN bag.m["o"].m => IsInt(bag.m["o"].m["p"])
                               /\ "q" \in DOMAIN bag.m["o"].m => IsStr(bag.m["o"].m["q"])
    \* "w", "v": any non-null value (nulls never reach the bag)

-----------------------------------------------------------------------
(* views *)
RECURSIVE FlattenRule(_, _, _)
FlattenSeq(parentReq, parentStor, defs) ==
    LET F[i \in 0..Len(defs)] ==
          IF i = 0 THEN <<>> ELSE F[i - 1] \o FlattenRule(parentReq, parentStor, defs[i])
    IN F[Len(defs)]
FlattenRule(parentReq, parentStor, def) ==
    LET r == [req |-> parentReq \o def.req, stor |-> parentStor \o def.stor, acc |-> def.acc]
    IN  <<r>> \o FlattenSeq(r.req, r.stor, def.content)
Flatten(defs) == FlattenSeq(<<>>, <<>>, defs)

Readable(r) == r.acc \in {"read-write", "read"}
Writeable(r) == r.acc \in {"read-write", "write"}

(* viewRule.match: the request matches the rule's request pattern exactly or as a prefix *)
Matches(r, req) == /\ Len(r.req) >= Len(req)
                   /\ \A i \in 1..Len(req) : IsPh(r.req[i]) \/ r.req[i] = req[i]
BoundPh(r, req) == {r.req[i] : i \in {j \in 1..Len(req) : IsPh(r.req[j])}}
Binding(r, req) == [ph \in BoundPh(r, req) |->
                      req[CHOOSE i \in 1..Len(req) : r.req[i] = ph /\ \A j \in (i + 1)..Len(req) : r.req[j] # ph]]
Suffix(r, req) == SubSeq(r.req, Len(req) + 1, Len(r.req))
StorPath(r, req) == LET b == Binding(r, req)
                    IN [i \in 1..Len(r.stor) |-> IF r.stor[i] \in DOMAIN b THEN b[r.stor[i]] ELSE r.stor[i]]
ReplaceIn(path, ph, cand) == [i \in 1..Len(path) |-> IF path[i] = ph THEN cand ELSE path[i]]

(* getValuesThroughPaths -> [ok, s]: s = set of <<storage path, value>>; ok = FALSE on error *)
RECURSIVE Through(_, _, _)
Through(sp, sfx, val) ==
    IF sfx = <<>> THEN [ok |-> TRUE, s |-> {<<sp, val>>}]
    ELSE IF val.t # "m" THEN [ok |-> FALSE, s |-> {}]   \* includes null: "expected map for unmatched request parts"
    ELSE IF ~IsPh(Head(sfx))
    THEN (IF Head(sfx) \in DOMAIN val.m THEN Through(sp, Tail(sfx), val.m[Head(sfx)])
          ELSE [ok |-> FALSE, s |-> {}])
    ELSE LET parts == {Through(ReplaceIn(sp, Head(sfx), c), Tail(sfx), val.m[c]) : c \in DOMAIN val.m}
         IN  [ok |-> \A x \in parts : x.ok, s |-> UNION {x.s : x \in parts}]

(* prunePathInValue -> remaining value, or Absent when nothing is left *)
RECURSIVE Prune(_, _)
Prune(sfx, val) ==
    IF sfx = <<>> \/ val = NullV \/ val = Absent THEN Absent
    ELSE IF val.t # "m" THEN Err
    ELSE IF IsPh(Head(sfx))
    THEN LET rest == [k \in DOMAIN val.m |-> Prune(Tail(sfx), val.m[k])]
             keep == {k \in DOMAIN val.m : rest[k] # Absent}
         IN  IF \E k \in DOMAIN val.m : rest[k] = Err THEN Err
             ELSE IF keep = {} THEN Absent ELSE Mp([k \in keep |-> rest[k]])
    ELSE IF Head(sfx) \notin DOMAIN val.m THEN Err
    ELSE LET nv == Prune(Tail(sfx), val.m[Head(sfx)])
             nm == IF nv = Absent THEN Remove(val.m, Head(sfx)) ELSE Upd(val.m, Head(sfx), nv)
         IN  IF nv = Err THEN Err ELSE IF DOMAIN nm = {} THEN Absent ELSE Mp(nm)

RECURSIVE PruneAll(_, _)
PruneAll(sfxs, val) ==
    IF sfxs = {} \/ val = Absent \/ val = Err THEN val
    ELSE LET s == CHOOSE s \in sfxs : TRUE IN PruneAll(sfxs \ {s}, Prune(s, val))

(* a set of <<path, x>> as a sequence, shorter paths first (the code sorts the matches by
   storage path: a path sorts before its extensions; unrelated paths commute) *)
RECURSIVE SeqOf(_)
SeqOf(S) == IF S = {} THEN <<>>
            ELSE LET x == CHOOSE x \in S : \A y \in S : Len(x[1]) <= Len(y[1])
                 IN  <<x>> \o SeqOf(S \ {x})

WMatches(req) == {i \in 1..Len(view) : Matches(view[i], req) /\ Writeable(view[i])}
RMatches(req) == {i \in 1..Len(view) : Matches(view[i], req) /\ Readable(view[i])}

(* View.Set -> [res, ds (deltas to append), touched] *)
ViewSet(req, val) ==
    LET ms == WMatches(req)
        exps == {Through(StorPath(view[i], req), Suffix(view[i], req), val) : i \in ms}
        left == PruneAll({Suffix(view[i], req) : i \in ms}, val)
    IN  IF ms = {} THEN [res |-> NotFound, ds |-> <<>>]
        ELSE IF (\E x \in exps : ~x.ok) \/ left # Absent THEN [res |-> BadReq, ds |-> <<>>]
        ELSE [res |-> Ok, ds |-> SeqOf(UNION {x.s : x \in exps})]

(* View.Unset *)
ViewUnset(req) ==
    LET ms == WMatches(req)
    IN  IF ms = {} THEN [res |-> NotFound, ds |-> <<>>]
        ELSE [res |-> Ok,          \* one Unset per matching rule, in rule order
              ds |-> LET F[i \in 0..Len(view)] ==
                           IF i = 0 THEN <<>>
                           ELSE IF i \in ms THEN Append(F[i - 1], <<StorPath(view[i], req), NullV>>)
                           ELSE F[i - 1]
                     IN F[Len(view)]]

(* namespaceResult *)
RECURSIVE Namespace(_, _)
Namespace(res, sfx) ==
    IF sfx = <<>> THEN res
    ELSE IF IsPh(Head(sfx))
    THEN (IF res.t # "m" THEN Err
          ELSE LET sub == [k \in DOMAIN res.m |-> Namespace(res.m[k], Tail(sfx))]
               IN  IF \E k \in DOMAIN res.m : sub[k] = Err THEN Err ELSE Mp(sub))
    ELSE LET n == Namespace(res, Tail(sfx)) IN IF n = Err THEN Err ELSE Mp(Head(sfx) :> n)

(* mergeNamespaces *)
RECURSIVE Merge(_, _)
Merge(old, new) ==
    IF old = Absent THEN new
    ELSE IF (old.t = "m") # (new.t = "m") THEN Err
    ELSE IF old.t # "m" THEN new
    ELSE LET sub == [k \in DOMAIN old.m \cup DOMAIN new.m |->
                       IF k \notin DOMAIN new.m THEN old.m[k]
                       ELSE IF k \notin DOMAIN old.m THEN new.m[k]
                       ELSE Merge(old.m[k], new.m[k])]
         IN  IF \E k \in DOMAIN sub : sub[k] = Err THEN Err ELSE Mp(sub)

RECURSIVE GetFold(_, _, _, _)
GetFold(bag, req, ms, acc) ==       \* ms: set of rule indexes still to read, shortest suffix first
    IF ms = {} THEN (IF acc = Absent THEN NotFound ELSE Val(acc))
    ELSE LET i == CHOOSE i \in ms : \A j \in ms : Len(view[i].req) <= Len(view[j].req)
             g == BagGet(bag, StorPath(view[i], req))
         IN  IF g = PathErr THEN GetFold(bag, req, ms \ {i}, acc)
             ELSE IF g = ErrR THEN ErrR
             ELSE LET ns == Namespace(g.v, Suffix(view[i], req))
                      mg == IF ns = Err THEN Err ELSE Merge(acc, ns)
                  IN  IF mg = Err THEN ErrR ELSE GetFold(bag, req, ms \ {i}, mg)

(* View.Get on a databag (Err bag: the transaction could not apply its deltas) *)
ViewGet(bag, req) ==
    IF RMatches(req) = {} THEN NotFound
    ELSE IF bag = Err THEN ErrR
    ELSE GetFold(bag, req, RMatches(req), Absent)

(* the databag calls a request makes: <<operation, storage path>> *)
TouchedBy(op, req, ds) ==
    IF op = "get" THEN {<<"get", StorPath(view[i], req)>> : i \in RMatches(req)}
    ELSE {<<IF ds[i][2] = NullV THEN "unset" ELSE "set", ds[i][1]>> : i \in 1..Len(ds)}

(* path p is an instance of the storage pattern of rule r for request req: placeholders bound by
   the request are substituted, the others may stand for any key (or stay unfilled) *)
InstanceOf(p, r, req) ==
    LET sp == StorPath(r, req)
    IN  Len(p) = Len(sp) /\ \A i \in 1..Len(sp) : IsPh(sp[i]) \/ sp[i] = p[i]

(* literal storage path q is related to the (possibly placeholder) path d: one is a prefix of the other *)
RelatedTo(q, d) == \A i \in 1..(IF Len(q) < Len(d) THEN Len(q) ELSE Len(d)) : IsPh(d[i]) \/ d[i] = q[i]

Exact(bag, q) == IF bag = Err THEN ErrR ELSE BagGet(bag, q)

-----------------------------------------------------------------------
AllOk == [access |-> TRUE, raw |-> TRUE, rejected |-> TRUE, order |-> TRUE]

Init ==
    /\ viewdef \in Views
    /\ view = Flatten(viewdef)
    /\ stored = EmptyMap
    /\ open = [t \in Txns |-> FALSE]
    /\ pristine = [t \in Txns |-> EmptyMap]
    /\ deltas = [t \in Txns |-> <<>>]
    /\ wpaths = [t \in Txns |-> {}]
    /\ nops = [t \in Txns |-> 0]
    /\ mon = AllOk
    /\ last = [op |-> "init"]

(* registry.NewTransaction *)
Begin(t) ==
    /\ ~open[t]
    /\ open' = [open EXCEPT ![t] = TRUE]
    /\ pristine' = [pristine EXCEPT ![t] = stored]
    /\ deltas' = [deltas EXCEPT ![t] = <<>>]
    /\ wpaths' = [wpaths EXCEPT ![t] = {}]
    /\ mon' = AllOk
    /\ last' = [op |-> "begin", t |-> t]
    /\ UNCHANGED <<view, viewdef, stored, nops>>

AccessOk(op, req, touched) ==
    \A c \in touched :
       \E i \in 1..Len(view) :
          /\ Matches(view[i], req)
          /\ IF op = "get" THEN Readable(view[i]) ELSE Writeable(view[i])
          /\ InstanceOf(c[2], view[i], req)

(* read-after-write is claimed when every rule the request matches is read-write, at least one
   matches it exactly (no placeholder left to be filled by other stored keys) and the value has
   no nulls *)
RawApplies(req, val) ==
    /\ ~HasNull(val)
    /\ \E i \in 1..Len(view) : Matches(view[i], req) /\ Len(view[i].req) = Len(req)
    /\ \A i \in 1..Len(view) : Matches(view[i], req) => view[i].acc = "read-write"

(* View.Set(tx, req, val) *)
Set(t, req, val) ==
    /\ open[t] /\ nops[t] < MaxOps
    /\ nops' = [nops EXCEPT ![t] = @ + 1]
    /\ LET r == ViewSet(req, val)
           nd == deltas[t] \o r.ds
           touched == TouchedBy("set", req, r.ds)
           nbag == ApplyDeltas(pristine[t], nd)
       IN  /\ deltas' = [deltas EXCEPT ![t] = nd]
           /\ wpaths' = [wpaths EXCEPT ![t] = @ \cup {r.ds[i][1] : i \in 1..Len(r.ds)}]
           /\ last' = [op |-> "set", t |-> t, req |-> req, val |-> val, res |-> r.res, touched |-> touched]
           /\ mon' = [AllOk EXCEPT
                 !.access = AccessOk("set", req, touched),
                 !.rejected = (r.res # Ok) => r.ds = <<>>,
                 !.raw = (r.res = Ok /\ RawApplies(req, val) /\ nbag # Err)
                            => ViewGet(nbag, req) = Val(val)]
    /\ UNCHANGED <<view, viewdef, stored, open, pristine>>

(* View.Unset(tx, req) *)
Unset(t, req) ==
    /\ open[t] /\ nops[t] < MaxOps
    /\ nops' = [nops EXCEPT ![t] = @ + 1]
    /\ LET r == ViewUnset(req)
           touched == TouchedBy("unset", req, r.ds)
       IN  /\ deltas' = [deltas EXCEPT ![t] = @ \o r.ds]
           /\ wpaths' = [wpaths EXCEPT ![t] = @ \cup {r.ds[i][1] : i \in 1..Len(r.ds)}]
           /\ last' = [op |-> "unset", t |-> t, req |-> req, res |-> r.res, touched |-> touched]
           /\ mon' = [AllOk EXCEPT !.access = AccessOk("unset", req, touched),
                                   !.rejected = (r.res # Ok) => r.ds = <<>>]
    /\ UNCHANGED <<view, viewdef, stored, open, pristine>>

(* View.Get(tx, req) *)
Get(t, req) ==
    /\ open[t] /\ nops[t] < MaxOps
    /\ nops' = [nops EXCEPT ![t] = @ + 1]
    /\ LET bag == TxBag(t)
           touched == TouchedBy("get", req, <<>>)     \* a Get that fails stops early: a subset of these
       IN  /\ last' = [op |-> "get", t |-> t, req |-> req, res |-> ViewGet(bag, req), touched |-> touched]
           /\ mon' = [AllOk EXCEPT !.access = AccessOk("get", req, touched)]
    /\ UNCHANGED <<view, viewdef, stored, open, pristine, deltas, wpaths>>

(* Transaction.Commit *)
Commit(t) ==
    /\ open[t] /\ nops[t] < MaxOps
    /\ nops' = [nops EXCEPT ![t] = @ + 1]
    /\ LET nb == ApplyDeltas(stored, deltas[t])
           ok == nb # Err /\ Valid(nb)
       IN  /\ last' = [op |-> "commit", t |-> t,
                       res |-> IF nb = Err THEN ErrR ELSE IF ~Valid(nb) THEN [k |-> "invalid"] ELSE Ok]
           /\ IF ok
              THEN /\ stored' = nb
                   /\ pristine' = [pristine EXCEPT ![t] = nb]
                   /\ deltas' = [deltas EXCEPT ![t] = <<>>]
                   /\ wpaths' = [wpaths EXCEPT ![t] = {}]
                   \* commits are applied in the order they happen on top of the latest stored data:
                   \* every stored path unrelated to what t wrote keeps its value
                   /\ mon' = [AllOk EXCEPT !.order =
                          \A q \in ChkPaths : ((\A d \in wpaths[t] : ~RelatedTo(q, d))
                                                 /\ Exact(stored, q).k = "val")
                                                 => Exact(nb, q) = Exact(stored, q)]
              ELSE /\ UNCHANGED <<stored, pristine, deltas, wpaths>>      \* the original databag is kept
                   /\ mon' = AllOk
    /\ UNCHANGED <<view, viewdef, open>>

Next ==
    \/ \E t \in Txns : Begin(t) \/ Commit(t)
    \/ \E t \in Txns, e \in SetMenu : Set(t, e[1], e[2])
    \/ \E t \in Txns, r \in UnsetMenu : Unset(t, r)
    \/ \E t \in Txns, r \in GetMenu : Get(t, r)

Spec == Init /\ [][Next]_vars

-----------------------------------------------------------------------
(* PROPERTIES *)
AccessRespected == mon.access
ReadAfterWrite == mon.raw
TxnOrder == mon.order

(* a rejected request appends nothing (mon.rejected); and stored data only ever changes by a
   successful Commit, to a schema-valid databag *)
RejectedStep ==
    /\ (~(last'.op = "commit" /\ last'.res = Ok)) => stored' = stored
    /\ (last'.op \in {"set", "unset"} /\ last'.res # Ok) => deltas' = deltas
RejectedChangesNothing == [][RejectedStep]_vars
RejectedInv == mon.rejected /\ Valid(stored)

(* nothing a transaction does before its commit is visible to the others *)
IsolationStep ==
    \A u \in Txns : (open[u] /\ ~(last'.op \in {"begin", "set", "unset", "commit"} /\ last'.t = u))
                      => ApplyDeltas(pristine'[u], deltas'[u]) = TxBag(u)
Isolation == [][IsolationStep]_vars

TypeOK == /\ stored.t = "m" /\ ~HasNull(stored)
          /\ \A t \in Txns : ~open[t] => deltas[t] = <<>>
=============================================================================
