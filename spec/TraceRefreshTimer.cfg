SPECIFICATION TSpec
INVARIANTS
  NextInWindowOrAtLimit
  NoWindowPastLimit
  LaunchInWindowOrAtLimit
  HighWater
POSTCONDITION Accepted
CHECK_DEADLOCK FALSE
