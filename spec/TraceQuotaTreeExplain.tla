------------------------ MODULE TraceQuotaTreeExplain ------------------------
(* diagnosis of a rejected trace line: props/_quotatree.py writes a 2-line trace (previous line, rejected line) *)
EXTENDS TraceQuotaTree
ASSUME PrintT(<<"EXPLAIN", Explain(2)>>)
=============================================================================
