-------------------------- MODULE ApiAccessSession --------------------------
(***************************************************************************)
(* C26, part 3 -- "a logged-in user": the set of users is STATE.           *)
(*                                                                         *)
(* Users log in (POST /v2/login -> auth.NewUser: ids are handed out in     *)
(* order, the user is appended to the auth state) and log out (POST        *)
(* /v2/logout -> auth.RemoveUser).  A request on an authenticated endpoint *)
(* carries the macaroon of some user that logged in at some point --       *)
(* possibly one that has logged out since.  auth.CheckMacaroon must        *)
(* recognise exactly the users that are logged in NOW, whatever the order  *)
(* of the logouts.                                                         *)
(*                                                                         *)
(* The decision for such a request is the AuthTail of ApiAccess.tla with   *)
(* rq.user = "valid" iff the macaroon's user is in loggedIn.               *)
(***************************************************************************)
EXTENDS Naturals, Sequences, FiniteSets, TLC

CONSTANTS MaxUsers,    \* users 1..MaxUsers log in, in this order
          MaxOps       \* length of the login/logout history explored

Users == 1..MaxUsers

VARIABLES h,          \* history of operations: <<"login", u>> / <<"logout", u>>
          issued,     \* number of users that have logged in so far (ids 1..issued were handed out)
          loggedIn    \* users whose session is live
vars == <<h, issued, loggedIn>>

Init == h = <<>> /\ issued = 0 /\ loggedIn = {}

Login == /\ issued < MaxUsers /\ Len(h) < MaxOps
         /\ issued' = issued + 1
         /\ loggedIn' = loggedIn \cup {issued + 1}
         /\ h' = Append(h, <<"login", issued + 1>>)

Logout(u) == /\ u \in loggedIn /\ Len(h) < MaxOps
             /\ loggedIn' = loggedIn \ {u}
             /\ h' = Append(h, <<"logout", u>>)
             /\ UNCHANGED issued

Next == Login \/ \E u \in Users : Logout(u)
Spec == Init /\ [][Next]_vars

\* a request with the macaroon of user u (issued earlier), valid peer credentials on snapd.socket
\* (authenticatedAccess: user # nil, else uid 0, else polkit if an action is configured, else 401)
Decide(u, uid, polkitConfigured, polkitAnswer, live) ==
  IF u \in live THEN "served"
  ELSE IF uid = "root" THEN "served"
  ELSE IF polkitConfigured THEN (CASE polkitAnswer = "yes" -> "served" [] polkitAnswer = "dismissed" -> "cancelled" [] OTHER -> "unauthorized")
  ELSE "unauthorized"

TypeOK == issued \in 0..MaxUsers /\ loggedIn \subseteq 1..issued /\ Len(h) <= MaxOps
\* the statement: an authenticated endpoint serves only root, a CURRENTLY logged-in user or a polkit-authorised caller
InvOnlyLoggedIn ==
  \A u \in 1..issued, uid \in {"root", "user"}, pc \in BOOLEAN, pa \in {"yes", "no", "dismissed", "error"} :
     Decide(u, uid, pc, pa, loggedIn) = "served" => (uid = "root" \/ u \in loggedIn \/ (pc /\ pa = "yes"))
\* a user that logged in and did not log out is still recognised (availability; design, not statement)
InvStillRecognised == \A u \in loggedIn : Decide(u, "user", FALSE, "no", loggedIn) = "served"
\* logging out never revives anybody and only ends the session named
InvLogoutExact ==
  Len(h) > 0 /\ h[Len(h)][1] = "logout" => h[Len(h)][2] \notin loggedIn
=============================================================================
