---------------------------- MODULE MountPlan ----------------------------
(* C28 -- mount namespace updates (cmd/snap-update-ns: neededChanges, executeMountProfileUpdate).

   This module does NOT transcribe neededChanges.  It says what a correct update is:

     an update u = [cur, des, plan, res, aborted] takes the current profile `cur` (a log of what is mounted,
     one entry per line), the desired profile `des`, the computed plan (a sequence of keep/unmount/mount
     changes with the outcome of performing each: ok?, synthesised helper entries) and the profile `res`
     recorded afterwards.  The clauses of the property are the operators

        ResultOK, HelperSupportKept   "yields exactly the desired entries plus only those previously
                                       created helper entries that still support a desired entry"
        KeptInPlace                   "keeping in place every unchanged entry that is not beneath a changed one"
        UnmountOrder / UnmountOrderTrue "never unmount an entry before the entries mounted beneath it after it"
        / UnmountStrandsNothing        (w.r.t. the order of the profile / the true order of mounting; and not
                                       at all while such an entry is kept)
        MountOrder                    "among entries of the same origin never mount an entry before the
                                       entries whose directories contain it"
        PlanCoversCurrent, ApplyMatches   (the plan is a plan for `cur`, and `res` is what executing it records)

   plus a history loop  current_0 = <<>>,  current_{i+1} = Apply(current_i, Plan(current_i, desired_i))  with a
   small reference planner and a model of the writable-mimic construction, on which TLC checks all clauses
   as invariants (MountPlanMC.tla).  TraceMountPlan.tla evaluates the same operators on updates recorded from
   the real code.

   Entry = [n: source, d: mount point (string), p: mount point as sequence of path components,
            t: fs type, o: options (sequence), k: x-snapd.kind, g: x-snapd.origin, s: x-snapd.synthetic?,
            nb: x-snapd.needed-by, id: x-snapd.id or d,
            c: "n d t options-without-x-snapd.detach" (identity of the entry up to the detach marker)]                                                    *)
EXTENDS Naturals, Sequences, FiniteSets, TLC

Range(s) == {s[i] : i \in DOMAIN s}
IsPrefix(p, q) == Len(p) <= Len(q) /\ SubSeq(q, 1, Len(p)) = p
\* b's directory lies strictly inside a's directory
Beneath(b, a) == Len(a.p) < Len(b.p) /\ IsPrefix(a.p, b.p)

\* the planner marks what it unmounts with x-snapd.detach; that option is not part of an entry's identity.
\* e.c is the entry printed in fstab form without that option (computed by the projection), so that
\* "same entry up to detach" is one string comparison.
NoDetach(o) == SelectSeq(o, LAMBDA x : x # "x-snapd.detach")
Core(e) == e.c

Ids(D) == {D[i].id : i \in DOMAIN D}
\* helper entries: synthetic entries made by snap-update-ns for the entry named by needed-by, and the root
\* file system entry written by snap-confine (origin rootfs; deviation named RootfsKept: it is never in a
\* desired profile and supports every entry)
Supports(e, D) == e.g = "rootfs" \/ (e.s /\ e.nb \in Ids(D))
Unchanged(e, D) == e \in Range(D) \/ Supports(e, D)
IsMountLike(e) == e.k # "ensure-dir"        \* ensure-dir entries only create directories; unmounting is a no-op

Keeps(u)    == {i \in DOMAIN u.plan : u.plan[i].act = "keep"}
Unmounts(u) == {i \in DOMAIN u.plan : u.plan[i].act = "unmount"}
Mounts(u)   == {i \in DOMAIN u.plan : u.plan[i].act = "mount"}
NewSynth(u) == UNION {Range(u.plan[i].synth) : i \in DOMAIN u.plan}
Failed(u)   == {u.plan[i].e : i \in {j \in Mounts(u) : ~u.plan[j].ok}}

-----------------------------------------------------------------------------
(* Executing a plan records, in order, the helper entries synthesised by each change and the entry of every
   keep and every successful mount (update.go: executeMountProfileUpdate).                                 *)
RECURSIVE ApplyFrom(_, _)
ApplyFrom(plan, i) ==
    IF i > Len(plan) THEN <<>>
    ELSE LET c == plan[i] IN
         c.synth \o (IF c.act # "unmount" /\ c.ok THEN <<c.e>> ELSE <<>>) \o ApplyFrom(plan, i + 1)
Apply(plan) == ApplyFrom(plan, 1)

ApplyMatches(u) == u.aborted \/ u.res = Apply(u.plan)

(* The plan is a plan for `cur`: every current entry is kept or unmounted exactly once (the unmount may carry
   an extra x-snapd.detach), nothing else is kept or unmounted, and only desired entries are mounted.       *)
PlanCoversCurrent(u) ==
    /\ \A i \in DOMAIN u.cur :
          Cardinality({j \in Keeps(u) \cup Unmounts(u) : Core(u.plan[j].e) = Core(u.cur[i])})
            = Cardinality({i2 \in DOMAIN u.cur : Core(u.cur[i2]) = Core(u.cur[i])})
    /\ \A j \in Keeps(u) : u.plan[j].e \in Range(u.cur)
    /\ \A j \in Unmounts(u) : \E i \in DOMAIN u.cur : Core(u.plan[j].e) = Core(u.cur[i])
    /\ \A j \in Mounts(u) : u.plan[j].e \in Range(u.des)

-----------------------------------------------------------------------------
\* Result: exactly the desired entries, plus only helpers that still support a desired entry
ResultMissing(u) == (Range(u.des) \ Failed(u)) \ Range(u.res)
ResultStale(u)   == {e \in Range(u.res) : /\ e \notin Range(u.des)
                                           /\ e \notin NewSynth(u)
                                           /\ ~(e \in Range(u.cur) /\ Supports(e, u.des))}
NewSynthOK(u)    == \A x \in NewSynth(u) : x.s /\ x.nb \in Ids(u.des)
ResultOK(u) == u.aborted \/ (ResultMissing(u) = {} /\ ResultStale(u) = {} /\ NewSynthOK(u))

(* A helper that still supports a desired entry may only go away together with that entry (which is then
   mounted again and gets new helpers if it needs them; named deviation HelperRebuilt): if the supported entry
   is kept in place, its helpers are kept too.                                                               *)
HelperDropped(u) == {x \in Range(u.cur) : /\ x.s /\ x.nb \in Ids(u.des)
                                          /\ ~\E j \in Keeps(u) : u.plan[j].e = x}
HelperSupportKept(u) ==
    \A x \in HelperDropped(u) : ~\E j \in Keeps(u) : ~u.plan[j].e.s /\ u.plan[j].e.id = x.nb

\* an unchanged entry that is not beneath a changed one is kept, and neither unmounted nor mounted again
MustKeep(u) == {e \in Range(u.cur) \cap Range(u.des) :
                   ~\E c \in Range(u.cur) : ~Unchanged(c, u.des) /\ Beneath(e, c)}
NotKept(u) == {e \in MustKeep(u) : \/ ~\E i \in Keeps(u) : u.plan[i].e = e
                                   \/ \E j \in Unmounts(u) \cup Mounts(u) : Core(u.plan[j].e) = Core(e)}
KeptInPlace(u) == NotKept(u) = {}

(* Unmount order with respect to a log `log` of what was mounted in which order (the current profile, or the
   true order of mounting): if b was mounted beneath a after a, and both are unmounted, b goes first.       *)
UnmountOrderBad(u, log) ==
    {<<i, j>> \in (DOMAIN log) \X (DOMAIN log) :
        /\ i < j /\ Beneath(log[j], log[i]) /\ IsMountLike(log[i]) /\ IsMountLike(log[j])
        /\ \E pi, pj \in Unmounts(u) : /\ Core(u.plan[pi].e) = Core(log[i])
                                       /\ Core(u.plan[pj].e) = Core(log[j])
                                       /\ pi < pj}
UnmountOrder(u)          == UnmountOrderBad(u, u.cur) = {}
UnmountOrderTrue(u, log) == UnmountOrderBad(u, log) = {}

(* ... and an entry is not unmounted at all while an entry that was mounted beneath it after it stays (kept):
   the kept entry would be unmounted "after" it, i.e. never.                                                *)
UnmountStrandsBad(u, log) ==
    {<<i, j>> \in (DOMAIN log) \X (DOMAIN log) :
        /\ i < j /\ Beneath(log[j], log[i]) /\ IsMountLike(log[i]) /\ IsMountLike(log[j])
        /\ \E pi \in Unmounts(u) : Core(u.plan[pi].e) = Core(log[i])
        /\ \E pj \in Keeps(u) : Core(u.plan[pj].e) = Core(log[j])
        /\ ~\E pj \in Unmounts(u) : Core(u.plan[pj].e) = Core(log[j])}
UnmountStrandsNothing(u, log) == UnmountStrandsBad(u, log) = {}

\* among entries of the same origin a directory is mounted before what it contains
MountOrderBad(u) == {<<i, j>> \in Mounts(u) \X Mounts(u) :
                        i < j /\ u.plan[i].e.g = u.plan[j].e.g /\ Beneath(u.plan[i].e, u.plan[j].e)}
MountOrder(u) == MountOrderBad(u) = {}

-----------------------------------------------------------------------------
\* the true order of mounting after executing a plan
RemoveLast(log, e) ==
    LET idx == {i \in DOMAIN log : Core(log[i]) = Core(e)} IN
    IF idx = {} THEN log
    ELSE LET m == CHOOSE i \in idx : \A k \in idx : k <= i IN
         SubSeq(log, 1, m - 1) \o SubSeq(log, m + 1, Len(log))
RECURSIVE TruthFrom(_, _, _)
TruthFrom(log, plan, i) ==
    IF i > Len(plan) THEN log
    ELSE LET c == plan[i] IN
         TruthFrom(CASE c.act = "unmount" -> RemoveLast(log, c.e)
                     [] c.act = "mount"   -> log \o c.synth \o (IF c.ok THEN <<c.e>> ELSE <<>>)
                     [] OTHER             -> log,
                   plan, i + 1)
TruthApply(log, plan) == TruthFrom(log, plan, 1)

=============================================================================
