------------------------------ MODULE DebVersion ------------------------------
(***************************************************************************)
(* C33 -- reference for strutil.VersionCompare: Debian version ordering    *)
(* (Debian policy 5.6.12 / dpkg lib/dpkg/version.c:verrevcmp) for versions *)
(* without an epoch; versions with an epoch are rejected.                  *)
(*                                                                         *)
(* Strings are sequences of ASCII codes (TLC is slow on TLA+ strings).     *)
(* The module is used in three ways (see props/c33.py):                    *)
(*   DebVersion_laws.cfg   one state per string x of the law domain;       *)
(*                         invariants = ordering laws of the statement     *)
(*   DebVersion_table.cfg  T->I: tabulates Ref over a slice of Dom x Dom   *)
(*   TraceDebVersion       I->T: real observations beyond the bound        *)
(***************************************************************************)
EXTENDS Integers, Sequences, FiniteSets, TLC, IOUtils, Json

\* '0' '1' 'a' 'b' '.' '+' '~' '-' ':'   (canonical order of the domain enumeration)
Alphabet == <<48, 49, 97, 98, 46, 43, 126, 45, 58>>
K == Len(Alphabet)

EnvInt(name, dflt) ==
    IF name \in DOMAIN IOEnv /\ IOEnv[name] # "" THEN atoi(IOEnv[name]) ELSE dflt

-----------------------------------------------------------------------------
(* The reference ordering *)

IsDigit(c) == c >= 48 /\ c <= 57
IsAlpha(c) == (c >= 65 /\ c <= 90) \/ (c >= 97 /\ c <= 122)

\* Debian: letters sort earlier than all non-letters, '~' sorts before
\* everything, even the end of a part (end of part / digit = 0).
Order(c) == IF IsDigit(c) THEN 0
            ELSE IF IsAlpha(c) THEN c
            ELSE IF c = 126 THEN -1
            ELSE c + 256

Sign(n) == IF n < 0 THEN -1 ELSE IF n > 0 THEN 1 ELSE 0
Max2(a, b) == IF a < b THEN b ELSE a
MinOf(S) == CHOOSE m \in S : \A n \in S : m <= n

\* number of leading characters of s (from position i) that are digits (dig=TRUE) / non-digits
RECURSIVE PrefEnd(_, _, _)
PrefEnd(s, i, dig) == IF i > Len(s) \/ IsDigit(s[i]) # dig THEN i - 1 ELSE PrefEnd(s, i + 1, dig)

\* A digit part is compared NUMERICALLY at arbitrary length (Debian policy; the empty string counts as 0):
\* by construction no conversion to (32-bit) TLC integers -- strip leading zeros, then the longer digit
\* string is the larger number, equal lengths compare digit by digit.
RECURSIVE StripZeros(_)
StripZeros(d) == IF d # <<>> /\ d[1] = 48 THEN StripZeros(SubSeq(d, 2, Len(d))) ELSE d
RECURSIVE CmpDigits(_, _, _)
CmpDigits(x, y, i) == IF i > Len(x) THEN 0
                      ELSE IF x[i] # y[i] THEN (IF x[i] < y[i] THEN -1 ELSE 1)
                      ELSE CmpDigits(x, y, i + 1)
CmpNum(x, y) ==        \* x, y: digit strings without leading zeros (<<>> = 0)
    IF x = y THEN 0
    ELSE IF Len(x) # Len(y) THEN (IF Len(x) < Len(y) THEN -1 ELSE 1)
    ELSE CmpDigits(x, y, 1)

\* A string is a list of (non-digit part, digit part) pairs, first non-digit part possibly empty.
RECURSIVE Parts(_)
Parts(s) ==
    IF s = <<>> THEN <<>>
    ELSE LET a == PrefEnd(s, 1, FALSE)
             b == PrefEnd(s, a + 1, TRUE)
         IN  << [nd |-> [i \in 1..a |-> Order(s[i])], n |-> StripZeros(SubSeq(s, a + 1, b))] >>
                 \o Parts(SubSeq(s, b + 1, Len(s)))

NoPart == [nd |-> <<>>, n |-> <<>>]

\* lexical comparison of non-digit parts under Order; the shorter one is continued by a digit or
\* by the end of the string, both of which have order 0
CmpND(x, y) ==
    LET At(z, i) == IF i <= Len(z) THEN z[i] ELSE 0
        D == {i \in 1..Max2(Len(x), Len(y)) : At(x, i) # At(y, i)}
    IN  IF D = {} THEN 0 ELSE LET i == MinOf(D) IN Sign(At(x, i) - At(y, i))

CmpPart(p, q) == LET c == CmpND(p.nd, q.nd) IN IF c # 0 THEN c ELSE CmpNum(p.n, q.n)

CmpParts(P, Q) ==
    LET At(Z, i) == IF i <= Len(Z) THEN Z[i] ELSE NoPart
        D == {i \in 1..Max2(Len(P), Len(Q)) : CmpPart(At(P, i), At(Q, i)) # 0}
    IN  IF D = {} THEN 0 ELSE LET i == MinOf(D) IN CmpPart(At(P, i), At(Q, i))

\* an epoch: a non-empty run of digits followed by ':' at the start
HasEpoch(s) == \E i \in 2..Len(s) : s[i] = 58 /\ \A j \in 1..(i - 1) : IsDigit(s[j])

\* the last '-' separates the (Debian) revision; no '-' = empty revision
LastDash(s) == LET D == {i \in 1..Len(s) : s[i] = 45} IN IF D = {} THEN 0 ELSE CHOOSE m \in D : \A n \in D : n <= m
Upstream(s) == LET d == LastDash(s) IN IF d = 0 THEN s ELSE SubSeq(s, 1, d - 1)
Revision(s) == LET d == LastDash(s) IN IF d = 0 THEN <<>> ELSE SubSeq(s, d + 1, Len(s))

\* parsed form, computed once per string
Parsed(s) == [epoch |-> HasEpoch(s), up |-> Parts(Upstream(s)), rev |-> Parts(Revision(s))]

ERR == 2
CmpParsed(pa, pb) ==
    IF pa.epoch \/ pb.epoch THEN ERR
    ELSE LET c == CmpParts(pa.up, pb.up) IN IF c # 0 THEN c ELSE CmpParts(pa.rev, pb.rev)

\* Ref(a, b) \in {-1, 0, 1, ERR}: what VersionCompare(a, b) must return
Ref(a, b) == CmpParsed(Parsed(a), Parsed(b))

\* snap.ValidateVersion: ^[a-zA-Z0-9](?:[a-zA-Z0-9:.+~-]{0,30}[a-zA-Z0-9+~])?$   (scope of the
\* "orders exactly as Debian" clause of the statement: valid versions without an epoch)
IsAlnum(c) == IsDigit(c) \/ IsAlpha(c)
IsMid(c) == IsAlnum(c) \/ c \in {58, 46, 43, 126, 45}
SnapValid(s) ==
    /\ Len(s) >= 1 /\ Len(s) <= 32
    /\ IsAlnum(s[1])
    /\ \A i \in 1..Len(s) : IsMid(s[i])
    /\ Len(s) > 1 => (IsAlnum(s[Len(s)]) \/ s[Len(s)] \in {43, 126})

-----------------------------------------------------------------------------
(* The bounded domain: all strings over Alphabet of length <= MaxLen, numbered 1..N by
   (length, then base-K value with Alphabet order). The Go driver uses the same numbering. *)

MaxLen == EnvInt("VERIF_MAXLEN", 2)

RECURSIVE PowK(_)
PowK(n) == IF n = 0 THEN 1 ELSE K * PowK(n - 1)
Off(L) == (PowK(L) - 1) \div (K - 1)            \* number of strings shorter than L
N == Off(MaxLen + 1)
Str(i) ==                                        \* i \in 1..N
    LET L == CHOOSE l \in 0..MaxLen : Off(l) < i /\ i <= Off(l + 1)
        k == i - 1 - Off(L)
    IN  [p \in 1..L |-> Alphabet[((k \div PowK(L - p)) % K) + 1]]

Dom == [i \in 1..N |-> Str(i)]
PDom == [i \in 1..N |-> Parsed(Dom[i])]
RefIdx(i, j) == CmpParsed(PDom[i], PDom[j])

-----------------------------------------------------------------------------
(* Laws of the statement, checked on the reference: one state per x; see DebVersion_laws.cfg *)

VARIABLE x
Init == x \in 1..N
Next == UNCHANGED x
Spec == Init /\ [][Next]_x

Ok(i) == ~PDom[i].epoch
OkSet == {i \in 1..N : Ok(i)}

Reflexive == Ok(x) => RefIdx(x, x) = 0
Antisymmetric == \A y \in OkSet : Ok(x) => RefIdx(x, y) = -RefIdx(y, x)
\* transitivity of <= (covers <, = and mixed cases)
Transitive == Ok(x) => \A y \in OkSet : RefIdx(x, y) <= 0 =>
                  \A z \in OkSet : RefIdx(y, z) <= 0 => RefIdx(x, z) <= 0
\* equivalence is a congruence: equal elements compare identically with everything
EqCongruent == Ok(x) => \A y \in OkSet : RefIdx(x, y) = 0 =>
                  \A z \in OkSet : RefIdx(x, z) = RefIdx(y, z)
EpochRejected == \A y \in 1..N : (RefIdx(x, y) = ERR) <=> (PDom[x].epoch \/ PDom[y].epoch)
\* '~' sorts before everything, even the end: s~ < s and s~ < s c for every other c (s without '-')
TildeFirst == (Ok(x) /\ Len(Dom[x]) < MaxLen /\ LastDash(Dom[x]) = 0) =>
                 /\ Ref(Dom[x] \o <<126>>, Dom[x]) = -1
                 /\ \A i \in 1..K : (Alphabet[i] \notin {126, 45, 58}) =>
                        Ref(Dom[x] \o <<126>>, Dom[x] \o <<Alphabet[i]>>) = -1
\* numeric parts compare numerically: leading zeros are irrelevant, missing number = 0
NumericParts == (Ok(x) /\ Len(Dom[x]) < MaxLen /\ (Dom[x] = <<>> \/ ~IsDigit(Dom[x][Len(Dom[x])]))) =>
                 /\ Ref(Dom[x] \o <<48>>, Dom[x] \o <<48, 48>>) = 0                \* 0 = 00
                 /\ Ref(Dom[x] \o <<48>>, Dom[x]) = 0                             \* 0 = missing
                 /\ Ref(Dom[x] \o <<49, 48>>, Dom[x] \o <<48, 49, 49>>) = -1       \* 10 < 011
                 /\ Ref(Dom[x] \o <<49, 48>>, Dom[x] \o <<49>>) = 1                \* 10 > 1
\* the last '-' separates the revision: "u-r" is ordered first by u then by r
RevisionSplit == (Ok(x) /\ LastDash(Dom[x]) > 0 /\ LastDash(Upstream(Dom[x])) = 0) =>
                 \A y \in OkSet : LastDash(Upstream(Dom[y])) = 0 =>
                     LET c == Ref(Upstream(Dom[x]), Upstream(Dom[y])) IN
                     RefIdx(x, y) = IF c # 0 THEN c ELSE Ref(Revision(Dom[x]), Revision(Dom[y]))

-----------------------------------------------------------------------------
(* T->I table: rows Lo..Hi of the N x N matrix (see DebVersion_table.cfg) *)

Lo == EnvInt("VERIF_LO", 1)
Hi == EnvInt("VERIF_HI", N)
Table == [alphabet |-> Alphabet, maxlen |-> MaxLen, n |-> N, lo |-> Lo, hi |-> Hi,
          dom   |-> [i \in 1..(Hi - Lo + 1) |-> Dom[Lo + i - 1]],
          valid |-> [i \in 1..(Hi - Lo + 1) |-> SnapValid(Dom[Lo + i - 1])],
          rows  |-> [i \in 1..(Hi - Lo + 1) |-> [j \in 1..N |-> RefIdx(Lo + i - 1, j)]]]
WriteTable == JsonSerialize(IOEnv.VERIF_OUT, Table)
=============================================================================
