------------------------------ MODULE RevEpoch ------------------------------
(***************************************************************************)
(* C35 -- reference for snap.Revision (String / ParseRevision / JSON /     *)
(* YAML) and snap.Epoch (Validate / String / MarshalJSON / UnmarshalJSON / *)
(* UnmarshalYAML / CanRead).                                               *)
(*                                                                         *)
(* Strings are sequences of ASCII codes (TLC is slow on TLA+ strings),     *)
(* numbers are integers < 2^31 (uint32 / int64 boundary values are checked *)
(* by the Go driver as direct laws).                                       *)
(* The module is used in three ways (see props/c35.py):                    *)
(*   RevEpoch_mc.cfg      one state per input of the bounded domain;       *)
(*                        invariants = laws of the statement on the        *)
(*                        reference                                        *)
(*   RevEpochTable        T->I: tabulates the reference over the domain    *)
(*                        (run with RevEpoch_mc.cfg it does both in one    *)
(*                        JVM: laws on, and table of, the same inputs)     *)
(*   TraceRevEpoch        I->T: real observations beyond the bound         *)
(***************************************************************************)
EXTENDS Integers, Sequences, FiniteSets, TLC, IOUtils, Json

EnvInt(name, dflt) ==
    IF name \in DOMAIN IOEnv /\ IOEnv[name] # "" THEN atoi(IOEnv[name]) ELSE dflt
EnvStr(name, dflt) ==
    IF name \in DOMAIN IOEnv /\ IOEnv[name] # "" THEN IOEnv[name] ELSE dflt

-----------------------------------------------------------------------------
(* characters, decimal numbers *)

IsDigit(c) == c >= 48 /\ c <= 57
AllDigits(s) == s # <<>> /\ \A i \in 1..Len(s) : IsDigit(s[i])

\* value of a digit string (callers keep it below 2^31: at most 9 significant digits)
RECURSIVE Val(_)
Val(d) == IF d = <<>> THEN 0 ELSE 10 * Val(SubSeq(d, 1, Len(d) - 1)) + (d[Len(d)] - 48)

\* decimal spelling of n >= 0, no padding
RECURSIVE Dec(_)
Dec(n) == IF n < 10 THEN <<48 + n>> ELSE Dec(n \div 10) \o <<48 + (n % 10)>>

Quote(s) == <<34>> \o s \o <<34>>

\* JSON insignificant whitespace around a token
IsWS(c) == c \in {32, 9, 10, 13}
RECURSIVE TrimL(_)
TrimL(s) == IF s # <<>> /\ IsWS(s[1]) THEN TrimL(Tail(s)) ELSE s
RECURSIVE TrimR(_)
TrimR(s) == IF s # <<>> /\ IsWS(s[Len(s)]) THEN TrimR(SubSeq(s, 1, Len(s) - 1)) ELSE s
Trim(s) == TrimR(TrimL(s))

-----------------------------------------------------------------------------
(* Revisions: an integer n; 0 = unset, n < 0 = local revision x<-n>, n > 0 = store revision *)

UNSET == <<117, 110, 115, 101, 116>>                      \* "unset"

RevString(n) == IF n = 0 THEN UNSET
                ELSE IF n < 0 THEN <<120>> \o Dec(-n)      \* "x" ++ dec(-n)
                ELSE Dec(n)

\* The numeric part of a revision string as the code reads it (strconv.Atoi, then "> 0"):
\* an optional '+', decimal digits (leading zeros allowed), value > 0.  A '-' sign can never
\* give a value > 0, so it is simply not part of the language.
NumBody(s) == IF s # <<>> /\ s[1] = 43 THEN Tail(s) ELSE s
PosNum(s)  == AllDigits(NumBody(s)) /\ Val(NumBody(s)) > 0
PosVal(s)  == Val(NumBody(s))

NoRev == [ok |-> FALSE, n |-> 0]
IsRev(n) == [ok |-> TRUE, n |-> n]

\* what ParseRevision(s) must return
RevParse(s) ==
    IF s = UNSET THEN IsRev(0)
    ELSE IF s # <<>> /\ s[1] = 120 /\ PosNum(Tail(s)) THEN IsRev(-PosVal(Tail(s)))
    ELSE IF PosNum(s) THEN IsRev(PosVal(s))
    ELSE NoRev

\* purely syntactic classes (independent of RevParse; used by the laws)
StripX(s) == IF s # <<>> /\ s[1] = 120 THEN Tail(s) ELSE s
\* the canonical spellings:  unset | x?[1-9][0-9]*
CanonSyntax(s) == s = UNSET \/ (AllDigits(StripX(s)) /\ StripX(s)[1] # 48)
\* anything that could denote a revision at all:  unset | x?\+?[0-9]+
LooksLikeRev(s) == s = UNSET \/ AllDigits(NumBody(StripX(s)))

\* JSON. Marshal writes the quoted string form. Unmarshal reads a JSON string token through
\* RevParse and a bare JSON integer literal  -?(0|[1-9][0-9]*)  as the number itself (older
\* state files stored revisions as numbers); every other JSON value is rejected.
RevJSON(n) == Quote(RevString(n))
IntLit(n)  == IF n < 0 THEN <<45>> \o Dec(-n) ELSE Dec(n)
JSONIntBody(t) == IF t # <<>> /\ t[1] = 45 THEN Tail(t) ELSE t
JSONInt(t)    == AllDigits(JSONIntBody(t)) /\ (Len(JSONIntBody(t)) = 1 \/ JSONIntBody(t)[1] # 48)
JSONIntVal(t) == IF t[1] = 45 THEN -Val(Tail(t)) ELSE Val(t)
RevFromJSONTok(t) ==
    IF Len(t) >= 2 /\ t[1] = 34 /\ t[Len(t)] = 34 THEN RevParse(SubSeq(t, 2, Len(t) - 1))
    ELSE IF JSONInt(t) THEN IsRev(JSONIntVal(t))
    ELSE NoRev
RevFromJSON(doc) == RevFromJSONTok(Trim(doc))

\* YAML (gopkg.in/yaml.v2). MarshalYAML hands the string form to the library, which quotes it
\* when the plain scalar would resolve to a number; UnmarshalYAML reads the scalar's text through
\* RevParse.
RevYAMLScalar(n) == IF n > 0 THEN Quote(Dec(n)) ELSE RevString(n)

-----------------------------------------------------------------------------
(* Epochs. A list is [nil |-> BOOLEAN, l |-> Seq(Nat)]: Go distinguishes a nil slice (attribute
   not given) from an explicitly empty one.  An epoch is [r |-> list, w |-> list]. *)

NILL == [nil |-> TRUE, l |-> <<>>]
L(l) == [nil |-> FALSE, l |-> l]
Ep(r, w) == [r |-> r, w |-> w]

SetOf(l) == {l[i] : i \in 1..Len(l)}
\* "empty meaning 0"
Norm(x) == IF x.l = <<>> THEN <<0>> ELSE x.l
Increasing(l) == \A i \in 1..(Len(l) - 1) : l[i] < l[i + 1]
ExplicitEmpty(x) == ~x.nil /\ x.l = <<>>
IsZeroL(x) == x.l = <<>> \/ x.l = <<0>>
IsZero(e) == IsZeroL(e.r) /\ IsZeroL(e.w)

\* what (*Epoch).Validate() must accept (doc comment of snap.Epoch): an explicitly empty list is
\* invalid; the zero epoch is valid; otherwise at most 10 entries, strictly increasing, and the
\* lists as given must intersect (an absent list next to a non-zero one does NOT count as {0}:
\* such an epoch would not survive MarshalJSON/UnmarshalJSON, see JSONRoundTrip).
ValidRaw(e) ==
    /\ ~ExplicitEmpty(e.r) /\ ~ExplicitEmpty(e.w)
    /\ \/ IsZero(e)
       \/ /\ Len(e.r.l) <= 10 /\ Len(e.w.l) <= 10
          /\ Increasing(e.r.l) /\ Increasing(e.w.l)
          /\ SetOf(e.r.l) \cap SetOf(e.w.l) # {}

\* e can read data written by o  <=>  reads(e) \cap writes(o) # {}   (empty meaning {0})
CanRead(e, o) == SetOf(Norm(e.r)) \cap SetOf(Norm(o.w)) # {}

\* Equal(): all spellings of the zero epoch are the same epoch; otherwise exact lists
EpochEq(a, b) == IF IsZero(a) THEN IsZero(b) ELSE a.r.l = b.r.l /\ a.w.l = b.w.l

NoEpoch == [ok |-> FALSE, e |-> Ep(NILL, NILL)]
OkEpoch(r, w) == [ok |-> TRUE, e |-> Ep(L(r), L(w))]

\* the structured form {"read": r, "write": w}; nil = attribute absent.  read defaults to write,
\* write defaults to the last item of read, both absent = epoch 0; the result must be valid.
ParseStructured(r, w) ==
    IF ExplicitEmpty(r) \/ ExplicitEmpty(w) THEN NoEpoch
    ELSE LET w1 == IF w.nil THEN (IF r.nil THEN <<0>> ELSE <<r.l[Len(r.l)]>>) ELSE w.l
             r1 == IF r.nil THEN w1 ELSE r.l
         IN  IF ValidRaw(Ep(L(r1), L(w1))) THEN OkEpoch(r1, w1) ELSE NoEpoch

\* an epoch number: base 10, no zero padding, no sign  (< 2^32: guaranteed here by the bound)
EpochNum(s) == AllDigits(s) /\ (Len(s) = 1 \/ s[1] # 48)
\* the short forms "N" and "N*" ("" and "0" are the zero epoch, "0*" is invalid)
ParseShort(s) ==
    IF s = <<>> \/ s = <<48>> THEN OkEpoch(<<0>>, <<0>>)
    ELSE LET star == s[Len(s)] = 42
             b == IF star THEN SubSeq(s, 1, Len(s) - 1) ELSE s
         IN  IF ~EpochNum(b) THEN NoEpoch
             ELSE IF ~star THEN OkEpoch(<<Val(b)>>, <<Val(b)>>)
             ELSE IF Val(b) = 0 THEN NoEpoch
             ELSE OkEpoch(<<Val(b) - 1, Val(b)>>, <<Val(b)>>)

\* printing
IsShortN(e)    == Len(e.w.l) = 1 /\ Len(e.r.l) = 1 /\ e.r.l[1] = e.w.l[1]
IsShortStar(e) == Len(e.w.l) = 1 /\ Len(e.r.l) = 2 /\ e.r.l[1] + 1 = e.r.l[2] /\ e.r.l[2] = e.w.l[1]
IsShort(e) == IsZero(e) \/ IsShortN(e) \/ IsShortStar(e)
ShortForm(e) == IF IsZero(e) THEN <<48>>
                ELSE IF IsShortN(e) THEN Dec(e.r.l[1])
                ELSE Dec(e.r.l[2]) \o <<42>>

RECURSIVE Join(_)
Join(l) == IF l = <<>> THEN <<>>
           ELSE IF Len(l) = 1 THEN Dec(l[1])
           ELSE Dec(l[1]) \o <<44>> \o Join(Tail(l))
JList(x) == IF x.nil THEN <<110, 117, 108, 108>> ELSE <<91>> \o Join(x.l) \o <<93>>     \* null | [a,b,c]
\* {"read":<r>,"write":<w>}
JObj(r, w) == <<123, 34, 114, 101, 97, 100, 34, 58>> \o JList(r)
              \o <<44, 34, 119, 114, 105, 116, 101, 34, 58>> \o JList(w) \o <<125>>

\* Epoch.String(): "0", "N", "N*" or the JSON object of the lists as they are
EpochString(e) == IF IsShort(e) THEN ShortForm(e) ELSE JObj(e.r, e.w)
\* Epoch.MarshalJSON(): always the structured form, an absent/empty list written as [0]
MarshalDoc(e) == Ep(L(Norm(e.r)), L(Norm(e.w)))
EpochJSON(e) == JObj(MarshalDoc(e).r, MarshalDoc(e).w)

\* flat result records used in tables / observations: [ok, r, w] with plain sequences
Flat(p) == [ok |-> p.ok, r |-> p.e.r.l, w |-> p.e.w.l]

-----------------------------------------------------------------------------
(* The bounded domain *)

RECURSIVE Pow(_, _)
Pow(k, n) == IF n = 0 THEN 1 ELSE k * Pow(k, n - 1)
Off(k, len) == (Pow(k, len) - 1) \div (k - 1)            \* number of sequences shorter than len
\* the i-th sequence (1-based) over alphabet alpha: by length, then base-K value
SeqNum(alpha, maxlen, i) ==
    LET k == Len(alpha)
        len == CHOOSE l \in 0..maxlen : Off(k, l) < i /\ i <= Off(k, l + 1)
        v == i - 1 - Off(k, len)
    IN  [p \in 1..len |-> alpha[((v \div Pow(k, len - p)) % k) + 1]]
AllSeqs(alpha, maxlen) == [i \in 1..Off(Len(alpha), maxlen + 1) |-> SeqNum(alpha, maxlen, i)]

\* -- revisions
RevBound == 12
RevDom == [i \in 1..(2 * RevBound + 1) |-> i - RevBound - 1]
            \o <<100, -100, 1999, -2001, 999999999, -999999999>>

\* -- strings: '0' '1' '2' 'x' '-' '+' '.' '*'  up to MaxLen, plus fixed words
StrAlphabet == <<48, 49, 50, 120, 45, 43, 46, 42>>
MaxLen == EnvInt("VERIF_MAXLEN", 3)
Words == <<
    UNSET,
    <<117,110,115,101,116,120>>,            \* unsetx
    <<120,117,110,115,101,116>>,            \* xunset
    <<117,110,115,101>>,                    \* unse
    <<85,110,115,101,116>>,                 \* Unset
    <<85,78,83,69,84>>,                     \* UNSET
    <<117,110,115,101,116,32>>,             \* "unset "
    <<32,49>>, <<49,32>>, <<120,32,49>>,    \* " 1"  "1 "  "x 1"
    <<88,49>>,                              \* X1
    <<120,49,120>>,                         \* x1x
    <<49,95,48>>,                           \* 1_0
    <<48,120,49>>,                          \* 0x1
    <<49,101,51>>,                          \* 1e3
    <<110,117,108,108>>,                    \* null
    <<116,114,117,101>>,                    \* true
    <<48,48,49,50>>, <<120,48,48,49,50>>, <<43,48,48,49,50>>, <<120,43,48,48,49,50>>,   \* 0012 x0012 +0012 x+0012
    <<49,48,48,48,48>>, <<120,49,48,48,48,48>>,                                     \* 10000 x10000
    <<57,57,57,57,57,57,57,57,57>>, <<120,57,57,57,57,57,57,57,57,57>>,             \* 999999999 x999999999
    <<48,57,57,57,57,57,57,57,57,57>>,                                              \* 0999999999
    <<48,48,48,48,48>>, <<120,48,48,48,48,48>>,                                     \* 00000 x00000
    <<49,48,42>>, <<57,42>>, <<49,42,48>>, <<49,32,42>>, <<48,49,42>>, <<48,48,42>>,  \* 10* 9* 1*0 "1 *" 01* 00*
    <<57,57,57,57,57,57,57,57,57,42>>,                                              \* 999999999*
    <<49,50,51,52,53>>, <<49,50,51,52,53,42>>                                       \* 12345 12345*
    >>
StrDom == AllSeqs(StrAlphabet, MaxLen) \o Words

\* -- epochs: read, write \in {nil} + all sequences over 0..3 of length <= ListLen (unsorted, duplicates
\*    and the explicitly empty list included), plus boundary shapes
ListLen == EnvInt("VERIF_LISTLEN", 3)
ListDom == <<NILL>> \o [i \in 1..Off(4, ListLen + 1) |-> L(SeqNum(<<0, 1, 2, 3>>, ListLen, i))]
NL == Len(ListDom)
UpTo(n) == [i \in 1..(n + 1) |-> i - 1]                   \* <<0, 1, ..., n>>
Boundary == <<
    Ep(L(UpTo(9)), L(<<9>>)),  Ep(L(UpTo(9)), L(UpTo(9))),  Ep(L(<<5>>), L(UpTo(9))),  Ep(L(UpTo(9)), NILL),
    Ep(L(UpTo(10)), L(<<10>>)), Ep(L(UpTo(10)), L(UpTo(10))), Ep(L(<<5>>), L(UpTo(10))), Ep(L(UpTo(10)), NILL),
    Ep(NILL, L(UpTo(9))), Ep(NILL, L(UpTo(10))),
    Ep(L(<<999999998, 999999999>>), L(<<999999999>>)),
    Ep(L(<<999999997, 999999999>>), L(<<999999999>>)),
    Ep(L(<<7, 1000000>>), L(<<1000000>>)),
    Ep(L(<<1000000>>), L(<<1000000>>)),
    Ep(L(<<9, 10>>), L(<<10>>)), Ep(L(<<10, 9>>), L(<<10>>)), Ep(L(<<9, 10>>), L(<<9>>)),
    Ep(L(<<0, 2, 4, 6, 8, 10, 12, 14, 16, 18>>), L(<<1, 3, 5, 7, 9, 11, 13, 15, 17, 18>>)),
    Ep(L(<<0, 2, 4, 6, 8, 10, 12, 14, 16, 18>>), L(<<1, 3, 5, 7, 9, 11, 13, 15, 17, 19>>))
    >>
EpDom == [i \in 1..(NL * NL) |-> Ep(ListDom[((i - 1) \div NL) + 1], ListDom[((i - 1) % NL) + 1])] \o Boundary

\* -- CanRead: read, write \in {nil, explicitly empty} + the 15 non-empty increasing lists over 0..3
\*    (CanRead is total: it does not require validity); all 289 x 289 pairs
CRLists == <<NILL>> \o SelectSeq([i \in 1..Off(4, 5) |-> L(SeqNum(<<0, 1, 2, 3>>, 4, i))],
                                 LAMBDA x : Increasing(x.l))
NCL == Len(CRLists)
CRDom == [i \in 1..(NCL * NCL) |-> Ep(CRLists[((i - 1) \div NCL) + 1], CRLists[((i - 1) % NCL) + 1])]

-----------------------------------------------------------------------------
(* Laws of the statement on the reference: one state per input, see RevEpoch_mc.cfg *)

\* The run can be restricted to some kinds of input (VERIF_KINDS = sum of rev 1, str 2, ep 4, cr 8) and to
\* a slice of the epoch domain (VERIF_LO..VERIF_HI), so that several JVMs share the work.
Kinds == EnvInt("VERIF_KINDS", 15)
HasKind(k) == LET b == CASE k = "rev" -> 1 [] k = "str" -> 2 [] k = "ep" -> 4 [] k = "cr" -> 8
              IN  (Kinds \div b) % 2 = 1
Lo == EnvInt("VERIF_LO", 1)
HiOr(n) == LET h == EnvInt("VERIF_HI", n) IN IF h < n THEN h ELSE n
VARIABLE x
Inputs == (IF HasKind("rev") THEN {"rev"} \X (1..Len(RevDom)) ELSE {})
              \cup (IF HasKind("str") THEN {"str"} \X (1..Len(StrDom)) ELSE {})
              \cup (IF HasKind("ep") THEN {"ep"} \X (Lo..HiOr(Len(EpDom))) ELSE {})
              \cup (IF HasKind("cr") THEN {"cr"} \X (1..Len(CRDom)) ELSE {})
Init == x \in Inputs
Next == UNCHANGED x
Spec == Init /\ [][Next]_x

IsK(k) == x[1] = k
\* ---- revisions
\* every revision reads back unchanged from its string and JSON forms (quoted and bare number)
RevRoundTrip == IsK("rev") => LET n == RevDom[x[2]] IN
                   /\ RevParse(RevString(n)) = IsRev(n)
                   /\ RevFromJSON(RevJSON(n)) = IsRev(n)
                   /\ RevFromJSON(IntLit(n)) = IsRev(n)
                   /\ CanonSyntax(RevString(n))
\* distinct revisions have distinct spellings
RevInjective == IsK("rev") => \A j \in 1..Len(RevDom) : j # x[2] => RevString(RevDom[j]) # RevString(RevDom[x[2]])
\* every accepted string re-reads, through its canonical spelling, as the same revision
RevParseCanonical == IsK("str") => LET p == RevParse(StrDom[x[2]]) IN
                   p.ok => RevParse(RevString(p.n)) = p /\ CanonSyntax(RevString(p.n))
\* the strings that read back as themselves are exactly the canonical spellings
RevCanonIffSyntax == IsK("str") => LET s == StrDom[x[2]] p == RevParse(s) IN
                   (p.ok /\ RevString(p.n) = s) <=> CanonSyntax(s)
\* invalid strings are rejected: whatever is not unset|x?+?digits, and every spelling of zero
RevRejects == IsK("str") => LET s == StrDom[x[2]] p == RevParse(s) IN
                   /\ ~LooksLikeRev(s) => ~p.ok
                   /\ (p.ok /\ p.n = 0) => s = UNSET
                   /\ (p.ok /\ s # UNSET) => ((p.n < 0) <=> (s[1] = 120))
\* a JSON string token reads as the string does
RevJSONString == IsK("str") => RevFromJSON(Quote(StrDom[x[2]])) = RevParse(StrDom[x[2]])

\* ---- epochs
\* every valid epoch can read its own data
SelfRead == IsK("ep") => LET e == EpDom[x[2]] IN ValidRaw(e) => CanRead(e, e)
\* a valid non-zero epoch has both lists given
ValidHasLists == IsK("ep") => LET e == EpDom[x[2]] IN
                   (ValidRaw(e) /\ ~IsZero(e)) => (~e.r.nil /\ ~e.w.nil /\ e.r.l # <<>> /\ e.w.l # <<>>)
\* every valid epoch reads back unchanged from its JSON form
JSONRoundTrip == IsK("ep") => LET e == EpDom[x[2]] IN ValidRaw(e) =>
                   LET p == ParseStructured(MarshalDoc(e).r, MarshalDoc(e).w) IN p.ok /\ EpochEq(p.e, e)
\* ... and from its printed form
StringRoundTrip == IsK("ep") => LET e == EpDom[x[2]] IN ValidRaw(e) =>
                   LET p == IF IsShort(e) THEN ParseShort(ShortForm(e)) ELSE ParseStructured(e.r, e.w)
                   IN  p.ok /\ EpochEq(p.e, e)
\* an invalid epoch is NOT kept by the JSON form: whenever marshal+unmarshal give back an equal epoch, it was valid
OnlyValidRoundTrip == IsK("ep") => LET e == EpDom[x[2]]
                                       p == ParseStructured(MarshalDoc(e).r, MarshalDoc(e).w) IN
                   (~ExplicitEmpty(e.r) /\ ~ExplicitEmpty(e.w) /\ p.ok /\ EpochEq(p.e, e)) => ValidRaw(e)
\* parsing never produces an invalid epoch, and applies the documented defaults
ParsedIsValid == IsK("ep") => LET d == EpDom[x[2]] p == ParseStructured(d.r, d.w) IN p.ok =>
                   /\ ValidRaw(p.e)
                   /\ d.r.nil => p.e.r = p.e.w
                   /\ (d.w.nil /\ ~d.r.nil) => p.e.w.l = <<d.r.l[Len(d.r.l)]>>
                   /\ (d.w.nil /\ d.r.nil) => IsZero(p.e)
                   /\ ~d.r.nil => p.e.r = d.r
                   /\ ~d.w.nil => p.e.w = d.w
\* invalid shapes given explicitly are rejected, valid ones accepted
ShapesDecided == IsK("ep") => LET d == EpDom[x[2]] IN (~d.r.nil /\ ~d.w.nil) =>
                   (ParseStructured(d.r, d.w).ok <=> ValidRaw(d))
\* short forms: parse to valid epochs whose printed form reads back as the same epoch
ShortForms == IsK("str") => LET p == ParseShort(StrDom[x[2]]) IN p.ok =>
                   /\ ValidRaw(p.e) /\ IsShort(p.e)
                   /\ ParseShort(EpochString(p.e)) = p
\* ---- CanRead
\* element-wise formulation (the shape of the code's loops) agrees with the set formulation,
\* and only e's read list and o's write list matter
CanReadLaw == IsK("cr") => LET e == CRDom[x[2]] IN \A j \in 1..Len(CRDom) : LET o == CRDom[j] IN
                   /\ CanRead(e, o) <=> (\E a \in 1..Len(Norm(e.r)), b \in 1..Len(Norm(o.w)) : Norm(e.r)[a] = Norm(o.w)[b])
                   /\ CanRead(e, o) = CanRead(Ep(e.r, NILL), Ep(NILL, o.w))
                   /\ CanRead(e, o) = CanRead(Ep(L(Norm(e.r)), e.w), Ep(o.r, L(Norm(o.w))))

\* "N*" can additionally read epoch N-1's data (doc comment of snap.Epoch)
E(s) == ParseShort(s).e
ASSUME \A n \in 1..9 :
          /\ CanRead(E(Dec(n) \o <<42>>), E(Dec(n - 1))) /\ CanRead(E(Dec(n) \o <<42>>), E(Dec(n)))
          /\ ~CanRead(E(Dec(n)), E(Dec(n - 1))) /\ ~CanRead(E(Dec(n - 1)), E(Dec(n) \o <<42>>))
ASSUME CanRead(E(<<>>), Ep(NILL, NILL)) /\ CanRead(Ep(NILL, NILL), E(<<48>>)) /\ ~CanRead(Ep(NILL, NILL), E(<<49>>))

-----------------------------------------------------------------------------
(* T->I tables (see RevEpochTable) *)

RevRows == [i \in 1..Len(RevDom) |-> LET n == RevDom[i] IN
              [n |-> n, s |-> RevString(n), json |-> RevJSON(n), yaml |-> RevYAMLScalar(n), lit |-> IntLit(n)]]
StrRows == [i \in 1..Len(StrDom) |-> LET s == StrDom[i] IN
              [s |-> s, rev |-> RevParse(s), canon |-> CanonSyntax(s), bare |-> RevFromJSON(s),
               short |-> Flat(ParseShort(s))]]
EpRows == [k \in 1..(HiOr(Len(EpDom)) - Lo + 1) |-> LET e == EpDom[Lo + k - 1] IN
              [r |-> e.r, w |-> e.w, valid |-> ValidRaw(e), str |-> EpochString(e), json |-> EpochJSON(e),
               self |-> CanRead(e, e), zero |-> IsZero(e),
               rt |-> Flat(ParseStructured(MarshalDoc(e).r, MarshalDoc(e).w)),
               doc |-> Flat(ParseStructured(e.r, e.w))]]
CRRows == [i \in 1..Len(CRDom) |-> [j \in 1..Len(CRDom) |-> CanRead(CRDom[i], CRDom[j])]]

\* the table has the sections selected by VERIF_KINDS (epochs: the slice VERIF_LO..VERIF_HI)
Table == [kinds |-> Kinds, maxlen |-> MaxLen, listlen |-> ListLen, lo |-> Lo, hi |-> HiOr(Len(EpDom)), nepochs |-> Len(EpDom),
          revs   |-> IF HasKind("rev") THEN RevRows ELSE <<>>,
          strs   |-> IF HasKind("str") THEN StrRows ELSE <<>>,
          epochs |-> IF HasKind("ep") THEN EpRows ELSE <<>>,
          crdom  |-> IF HasKind("cr") THEN CRDom ELSE <<>>,
          canread |-> IF HasKind("cr") THEN CRRows ELSE <<>>]
WriteTable == JsonSerialize(IOEnv.VERIF_OUT, Table)
=============================================================================
