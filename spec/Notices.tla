------------------------------ MODULE Notices ------------------------------
(***************************************************************************)
(* C08 -- snapd notices: the "after" cursor protocol of polling clients,   *)
(* ownership, repeat-after suppression and waiter wake-ups.                *)
(*                                                                         *)
(* Models overlord/state/notices.go:                                       *)
(*   AddNotice   -> Add (timeNow path with the strictly-increasing         *)
(*                  lastNoticeTimestamp bump) and AddAt (options.Time      *)
(*                  path, which bypasses the bump)                         *)
(*   Notices     -> Poll (filter = client's static filter + After=cursor)  *)
(*   WaitNotices -> Poll when something matches already, else WaitStart /  *)
(*                  WakeCheck (cond.Wait re-check loop) / WaitTimeout      *)
(* and the filter-granting rule of daemon/api_notices.go:getNotices        *)
(* (DaemonFilter / Granted).                                               *)
(*                                                                         *)
(* Time is an integer number of nanoseconds relative to a base; 0 is the   *)
(* zero time.Time (unset cursor / unset lastNoticeTimestamp).  The mocked  *)
(* clock takes values in ClockValues (coarser than the bump) and may stay put between additions  *)
(* (coarse timers); the bump is 1 (one nanosecond).                        *)
(***************************************************************************)
EXTENDS Integers, Sequences, FiniteSets, TLC

CONSTANTS
    Users,         \* uids that may own notices
    Types,         \* notice types
    Keys,          \* notice keys
    RepeatAfters,  \* repeat-after windows (0 = always repeat)
    Data,          \* abstract last-data payloads
    Clients,       \* polling / waiting clients
    CfgChoices,    \* set of functions [Clients -> client configuration]
    ClockValues,   \* values the mocked clock may take (>= 1); it may stay put between additions
    MaxAdds,       \* bound on the number of additions
    Bump,          \* TRUE = production (strictly increasing bump); FALSE = negative design control
    BroadcastRepeat, \* TRUE = production (Broadcast on new *and* repeated); FALSE = negative design control
    AddAtTimes,    \* times usable with options.Time ({} disables AddAt)
    ClockRegress   \* TRUE: the clock may also jump backwards

Public == -1       \* owner of a public notice (userID == nil)
NoUser == -2       \* filter.UserID == nil (no user filtering)
Owners == Users \cup {Public}

VARIABLES
    clock,    \* mocked timeNow()
    lastTs,   \* State.lastNoticeTimestamp (0 = zero time)
    lastId,   \* State.lastNoticeId
    notices,  \* set of notice records
    nadds,    \* number of additions so far (bound only)
    cfg,      \* client -> [uid, user, types, keys]; fixed after Init
    cursor,   \* client -> last-repeated time of the last notice it saw (0 = none)
    seen,     \* client -> sequence of <<id, lastRep>> delivered so far (history)
    wst,      \* client -> "idle" | "blocked" (in cond.Wait) | "woken" (signalled, not yet re-checked)
    last      \* description of the last step (observation for replay / monitors)

vars == <<clock, lastTs, lastId, notices, nadds, cfg, cursor, seen, wst, last>>
(* VIEW for the exhaustive configs: `last` is an observation, and of a notice only id, identity and   *)
(* last-repeated influence any later step or any client-visible property (first/lastOcc/occ/ra/data *)
(* are write-only in AddNotice), so states differing only there are bisimilar.                       *)
Core(n) == [id |-> n.id, owner |-> n.owner, type |-> n.type, key |-> n.key, lastRep |-> n.lastRep]
view == <<clock, lastTs, lastId, {Core(n) : n \in notices}, nadds, cfg, cursor, seen, wst>>

NoAdd == [isNew |-> FALSE, repeated |-> FALSE, prevRep |-> 0, now |-> 0, ra |-> 0]
Step(ev, c, args, res, add) == [ev |-> ev, c |-> c, args |-> args, res |-> res, add |-> add]

-----------------------------------------------------------------------------
(* daemon/api_notices.go:getNotices -- which state-level filter a request gets *)
(* uidParam: NoUser when "user-id" is absent; usersAll: "users=all" present.    *)
UnknownUid == -3   \* the request's peer credentials cannot be determined
DaemonFilter(reqUid, uidParam, usersAll) ==
    IF reqUid = UnknownUid THEN [status |-> 403, user |-> NoUser]
    ELSE IF uidParam # NoUser /\ reqUid # 0 THEN [status |-> 403, user |-> NoUser]
    ELSE IF usersAll /\ reqUid # 0     THEN [status |-> 403, user |-> NoUser]
    ELSE IF usersAll /\ uidParam # NoUser THEN [status |-> 400, user |-> NoUser]
    ELSE IF usersAll                   THEN [status |-> 200, user |-> NoUser]
    ELSE IF uidParam # NoUser          THEN [status |-> 200, user |-> uidParam]
    ELSE                                    [status |-> 200, user |-> reqUid]

(* a client configuration is one the daemon would grant to its request uid *)
Granted(f) == \E up \in Users \cup {0, NoUser}, ua \in BOOLEAN :
                 LET r == DaemonFilter(f.uid, up, ua) IN r.status = 200 /\ r.user = f.user

(* ownership rule of the statement: who may see a notice of owner o *)
MayView(uid, o) == o = Public \/ o = uid \/ uid = 0

-----------------------------------------------------------------------------
(* NoticeFilter.matches without the After clause *)
MatchesStatic(f, n) ==
    /\ (f.user = NoUser \/ n.owner = Public \/ n.owner = f.user)
    /\ (f.types = {} \/ n.type \in f.types)
    /\ (f.keys = {} \/ n.key \in f.keys)

(* ... with After = cur (zero time = no After clause) *)
MatchesAfter(f, cur, n) == MatchesStatic(f, n) /\ (cur = 0 \/ n.lastRep > cur)

PendingIn(ns, c) == {n \in ns : MatchesAfter(cfg[c], cursor[c], n)}
Pending(c) == PendingIn(notices, c)

(* all orderings of S by last-repeated (sort.Slice is not stable: ties in any order) *)
RECURSIVE Sorts(_)
Sorts(S) == IF S = {} THEN {<<>>}
            ELSE LET mins == {m \in S : \A x \in S : m.lastRep <= x.lastRep}
                 IN UNION {{<<m>> \o s : s \in Sorts(S \ {m})} : m \in mins}

Vers(n) == <<n.id, n.lastRep>>
VersSeq(res) == [i \in DOMAIN res |-> Vers(res[i])]
NewCursor(cur, res) == IF res = <<>> THEN cur ELSE res[Len(res)].lastRep

Find(ns, o, t, k) == {n \in ns : n.owner = o /\ n.type = t /\ n.key = k}

-----------------------------------------------------------------------------
Init ==
    /\ clock = 1
    /\ lastTs = 0
    /\ lastId = 0
    /\ notices = {}
    /\ nadds = 0
    /\ cfg \in CfgChoices
    /\ \A c \in Clients : Granted(cfg[c])
    /\ cursor = [c \in Clients |-> 0]
    /\ seen = [c \in Clients |-> <<>>]
    /\ wst = [c \in Clients |-> "idle"]
    /\ last = Step("Init", "-", <<>>, <<>>, NoAdd)

Tick(v) ==
    /\ v \in ClockValues /\ v # clock
    /\ v > clock \/ ClockRegress
    /\ clock' = v
    /\ last' = Step("Tick", "-", <<v>>, <<>>, NoAdd)
    /\ UNCHANGED <<lastTs, lastId, notices, nadds, cfg, cursor, seen, wst>>

(* the record update shared by Add and AddAt: one occurrence at time now *)
Occur(ev, o, t, k, ra, d, now) ==
    LET old == Find(notices, o, t, k) IN
    IF old = {} THEN
        /\ lastId' = lastId + 1
        /\ notices' = notices \cup {[id |-> lastId + 1, owner |-> o, type |-> t, key |-> k,
                                     first |-> now, lastOcc |-> now, lastRep |-> now,
                                     occ |-> 1, ra |-> ra, data |-> d]}
        /\ wst' = [c \in Clients |-> IF wst[c] = "blocked" THEN "woken" ELSE wst[c]]     \* Broadcast
        /\ last' = Step(ev, "-", <<o, t, k, ra, d, now>>, <<>>,
                        [isNew |-> TRUE, repeated |-> TRUE, prevRep |-> 0, now |-> now, ra |-> ra])
    ELSE
        LET n == CHOOSE x \in old : TRUE
            rep == ra = 0 \/ now > n.lastRep + ra
            m == [n EXCEPT !.occ = n.occ + 1, !.lastOcc = now, !.data = d, !.ra = ra,
                           !.lastRep = IF rep THEN now ELSE n.lastRep]
        IN /\ lastId' = lastId
           /\ notices' = (notices \ {n}) \cup {m}
           /\ wst' = [c \in Clients |-> IF rep /\ BroadcastRepeat /\ wst[c] = "blocked" THEN "woken" ELSE wst[c]]
           /\ last' = Step(ev, "-", <<o, t, k, ra, d, now>>, <<>>,
                           [isNew |-> FALSE, repeated |-> rep, prevRep |-> n.lastRep, now |-> now, ra |-> ra])

(* AddNotice with options.Time unset: timeNow() bumped strictly above lastNoticeTimestamp *)
BumpedNow == IF Bump /\ clock <= lastTs THEN lastTs + 1 ELSE clock

Add(o, t, k, ra, d) ==
    /\ nadds < MaxAdds
    /\ nadds' = nadds + 1
    /\ lastTs' = BumpedNow
    /\ Occur("Add", o, t, k, ra, d, BumpedNow)
    /\ UNCHANGED <<clock, cfg, cursor, seen>>

(* AddNotice with options.Time = at: no bump, lastNoticeTimestamp untouched.  *)
(* Not used by production callers at the pinned commit; outside the           *)
(* exactly-once claim (see Notices_mc_addat.cfg for the witness).             *)
AddAt(o, t, k, ra, d, at) ==
    /\ nadds < MaxAdds
    /\ nadds' = nadds + 1
    /\ Occur("AddAt", o, t, k, ra, d, at)
    /\ UNCHANGED <<clock, lastTs, cfg, cursor, seen>>

(* deliver res to client c: what the client does with a non-error reply *)
Deliver(c, res) ==
    /\ seen' = [seen EXCEPT ![c] = seen[c] \o VersSeq(res)]
    /\ cursor' = [cursor EXCEPT ![c] = NewCursor(cursor[c], res)]

(* State.Notices(filter+After=cursor) -- also WaitNotices when something matches already *)
Poll(c) ==
    /\ wst[c] = "idle"
    /\ \E res \in Sorts(Pending(c)) :
          /\ Deliver(c, res)
          /\ last' = Step("Poll", c, <<>>, VersSeq(res), NoAdd)
    /\ UNCHANGED <<clock, lastTs, lastId, notices, nadds, cfg, wst>>

(* WaitNotices with nothing matching: the caller blocks in noticeCond.Wait *)
WaitStart(c) ==
    /\ wst[c] = "idle"
    /\ Pending(c) = {}
    /\ wst' = [wst EXCEPT ![c] = "blocked"]
    /\ last' = Step("WaitStart", c, <<>>, <<>>, NoAdd)
    /\ UNCHANGED <<clock, lastTs, lastId, notices, nadds, cfg, cursor, seen>>

(* a signalled waiter re-acquires the lock and re-checks *)
WakeCheck(c) ==
    /\ wst[c] = "woken"
    /\ IF Pending(c) = {}
       THEN /\ wst' = [wst EXCEPT ![c] = "blocked"]
            /\ last' = Step("WakeRecheck", c, <<>>, <<>>, NoAdd)
            /\ UNCHANGED <<cursor, seen>>
       ELSE /\ wst' = [wst EXCEPT ![c] = "idle"]
            /\ \E res \in Sorts(Pending(c)) :
                  /\ Deliver(c, res)
                  /\ last' = Step("WaitReturn", c, <<>>, VersSeq(res), NoAdd)
    /\ UNCHANGED <<clock, lastTs, lastId, notices, nadds, cfg>>

(* context cancelled / deadline: returns an error, nothing delivered *)
WaitTimeout(c) ==
    /\ wst[c] \in {"blocked", "woken"}
    /\ wst' = [wst EXCEPT ![c] = "idle"]
    /\ last' = Step("WaitTimeout", c, <<>>, <<>>, NoAdd)
    /\ UNCHANGED <<clock, lastTs, lastId, notices, nadds, cfg, cursor, seen>>

AnyAdd == \E o \in Owners, t \in Types, k \in Keys, ra \in RepeatAfters, d \in Data : Add(o, t, k, ra, d)
AnyAddAt == \E o \in Owners, t \in Types, k \in Keys, ra \in RepeatAfters, d \in Data, at \in AddAtTimes :
               AddAt(o, t, k, ra, d, at)
AnyPoll == \E c \in Clients : Poll(c)
AnyWaitStart == \E c \in Clients : WaitStart(c)
AnyWakeCheck == \E c \in Clients : WakeCheck(c)
AnyWaitTimeout == \E c \in Clients : WaitTimeout(c)

AnyTick == \E v \in ClockValues : Tick(v)
NextPoll == AnyTick \/ AnyAdd \/ AnyAddAt \/ AnyPoll                    \* single-goroutine fragment (T->I replay)
Next == NextPoll \/ AnyWaitStart \/ AnyWakeCheck \/ AnyWaitTimeout

Spec == Init /\ [][Next]_vars
SpecPoll == Init /\ [][NextPoll]_vars
(* liveness: a signalled waiter eventually gets the lock; no timeouts interfere *)
NextLive == AnyTick \/ AnyAdd \/ AnyPoll \/ AnyWaitStart \/ AnyWakeCheck
SpecLive == Init /\ [][NextLive]_vars /\ \A c \in Clients : WF_vars(WakeCheck(c))

-----------------------------------------------------------------------------
(* Properties                                                              *)

TypeOK ==
    /\ clock \in ClockValues
    /\ lastTs \in Nat /\ lastId \in Nat /\ nadds \in 0..MaxAdds
    /\ \A n \in notices : /\ n.id \in 1..lastId /\ n.owner \in Owners /\ n.type \in Types /\ n.key \in Keys
                          /\ n.first <= n.lastRep /\ n.lastRep <= n.lastOcc /\ n.occ >= 1
    /\ \A c \in Clients : wst[c] \in {"idle", "blocked", "woken"}

(* ids and (owner,type,key) identify notices *)
UniqueNotices == \A a, b \in notices :
                    (a.id = b.id \/ (a.owner = b.owner /\ a.type = b.type /\ a.key = b.key)) => a = b

SeenSet(c) == {seen[c][i] : i \in DOMAIN seen[c]}

(* at most once: no version (id, last-repeated) is delivered twice to a client *)
AtMostOnce == \A c \in Clients : \A i, j \in DOMAIN seen[c] : i # j => seen[c][i] # seen[c][j]

(* nothing is skipped by the cursor: every matching version at or below the *)
(* cursor has been delivered (so what is still owed is exactly Pending).    *)
NoSkip == \A c \in Clients : \A n \in notices :
             (MatchesStatic(cfg[c], n) /\ cursor[c] # 0 /\ n.lastRep <= cursor[c]) => Vers(n) \in SeenSet(c)

ExactlyOnce == AtMostOnce /\ NoSkip

(* a Poll / WaitReturn delivers everything that is owed, exactly once (action property) *)
PollDrains == \A c \in Clients :
    seen'[c] # seen[c] =>
        /\ \A n \in Pending(c) : Cardinality({i \in DOMAIN seen'[c] : seen'[c][i] = Vers(n)}) = 1
        /\ Pending(c)' = {}
PollDrainsProp == [][PollDrains]_vars

(* occurrence order: deliveries are ordered by last-repeated; strictly when the bump is in force *)
InOrder == \A c \in Clients : \A i, j \in DOMAIN seen[c] :
              i < j => IF AddAtTimes = {} THEN seen[c][i][2] < seen[c][j][2] ELSE seen[c][i][2] <= seen[c][j][2]

(* never phantom: only versions that exist(ed) are delivered, each after the cursor it was asked with. *)
(* State form: every delivered version belongs to a notice, is not from the future, and the cursor     *)
(* is the last delivered time.  Action form: NoPhantomAct.                                             *)
NoPhantom == \A c \in Clients :
    /\ \A i \in DOMAIN seen[c] : \E n \in notices : n.id = seen[c][i][1] /\ seen[c][i][2] <= n.lastRep
                                                    /\ seen[c][i][2] >= n.first
    /\ cursor[c] = IF seen[c] = <<>> THEN 0 ELSE seen[c][Len(seen[c])][2]
NoPhantomAct == \A c \in Clients : \A i \in DOMAIN seen'[c] :
    i > Len(seen[c]) => /\ (cursor[c] = 0 \/ seen'[c][i][2] > cursor[c])
                        /\ \E n \in notices : Vers(n) = seen'[c][i] /\ MatchesStatic(cfg[c], n)
NoPhantomProp == [][NoPhantomAct]_vars

(* ownership: a user-specific notice is delivered only to its owner (or root); the filter a client *)
(* holds is one the daemon grants to its uid.                                                       *)
Ownership == \A c \in Clients :
    /\ Granted(cfg[c])
    /\ \A i \in DOMAIN seen[c] : \A n \in notices : n.id = seen[c][i][1] => MayView(cfg[c].uid, n.owner)
(* public notices (and, with the default filter, one's own) are subject to the type/key filter only *)
PublicToAll == \A c \in Clients : \A n \in notices :
    (n.owner = Public \/ (n.owner = cfg[c].uid /\ cfg[c].user = cfg[c].uid)) =>
        (MatchesStatic(cfg[c], n) <=> MatchesStatic([cfg[c] EXCEPT !.user = NoUser], n))

(* daemon level (monitor on last, set by the trace spec's Req step): whatever a request of uid u gets *)
(* back with status 200 is viewable by u                                                           *)
DaemonOwnership ==
    last.ev = "Req" /\ last.args[4] = 200 =>
        \A i \in DOMAIN last.res : \A n \in notices : n.id = last.res[i][1] => MayView(last.args[1], n.owner)

(* repeat-after: an occurrence of an existing notice re-delivers iff the window elapsed (monitor on last) *)
RepeatAfterSuppression ==
    last.ev \in {"Add", "AddAt"} /\ ~last.add.isNew =>
        (last.add.repeated <=> (last.add.ra = 0 \/ last.add.now > last.add.prevRep + last.add.ra))
(* the same as an action property (independent of `last`, usable with VIEW) *)
RepeatAfterAct == \A n \in notices : \A m \in notices' :
    (m.id = n.id /\ m.occ = n.occ + 1) =>
        m.lastRep = IF m.ra = 0 \/ m.lastOcc > n.lastRep + m.ra THEN m.lastOcc ELSE n.lastRep
RepeatAfterProp == [][RepeatAfterAct]_vars

(* the bump: occurrence times on the timeNow path are strictly increasing *)
StrictTimes == AddAtTimes = {} => /\ \A a, b \in notices : a # b => a.lastRep # b.lastRep
                                  /\ \A n \in notices : n.lastOcc <= lastTs

(* no lost wake-up (safety half of Wake): a waiter still blocked has nothing owed *)
NoLostWakeup == \A c \in Clients : wst[c] = "blocked" => Pending(c) = {}

(* Wake: a waiting client for which a matching notice occurred is eventually released *)
Wake == \A c \in Clients : (wst[c] # "idle" /\ Pending(c) # {}) ~> (wst[c] = "idle")

-----------------------------------------------------------------------------
(* Bounded-model helpers (referenced from the .cfg files)                   *)
F(uid, user, types, keys) == [uid |-> uid, user |-> user, types |-> types, keys |-> keys]

MCClients == {"c1", "c2"}
MCTypes == {"change-update", "warning"}
MCKeys == {"k1", "k2"}
MCUsers == {1000, 1001}
(* pairs of different filters: plain user, user+key filter, root default, root users=all + type, root user-id *)
MCCfgChoices == {
    [c \in MCClients |-> IF c = "c1" THEN F(1000, 1000, {}, {}) ELSE F(0, NoUser, {"warning"}, {})],
    [c \in MCClients |-> IF c = "c1" THEN F(1001, 1001, {}, {"k1"}) ELSE F(0, 1000, {}, {})],
    [c \in MCClients |-> IF c = "c1" THEN F(0, 0, {"change-update"}, {"k2"}) ELSE F(1000, 1000, {"warning", "change-update"}, {})]
  }
MCCfgOne == {[c \in MCClients |-> IF c = "c1" THEN F(1000, 1000, {}, {}) ELSE F(0, NoUser, {"warning"}, {})]}
MCUsers1 == {1000}
MCUsers0 == {}
MCCfgLive == {[c \in MCClients |-> IF c = "c1" THEN F(1000, 1000, {}, {}) ELSE F(1001, 1001, {}, {"k1"})]}
MCClients1 == {"c1"}
MCCfgNarrow == {[c \in MCClients1 |-> F(1000, 1000, {}, {})]}
MCTypes1 == {"warning"}
(* deep slice: owner sees own+public; a stranger (uid 1001) with a key filter sees only public k1 *)
MCCfgDeep == {[c \in MCClients |-> IF c = "c1" THEN F(1000, 1000, {}, {}) ELSE F(1001, 1001, {}, {"k1"})]}
(* a client configuration the daemon must never grant: non-root asking for everybody's notices *)
MCCfgBad == {[c \in MCClients |-> IF c = "c1" THEN F(1000, NoUser, {}, {}) ELSE F(0, NoUser, {}, {})]}
=============================================================================
