---------------------------- MODULE TimerWindows ----------------------------
(* Declarative meaning of a refresh.timer value (C16).                        *)
(*                                                                            *)
(* Time unit: seconds since 2018-01-01T00:00:00Z (Calendar day 0).            *)
(* A timer is a sequence of event sets ("schedules"):                         *)
(*   sched == [ws |-> Seq(weekspan), cs |-> Seq(clockspan)]                   *)
(*   weekspan  == [swd, spos, ewd, epos]  weekday 0..6 (Sunday=0), pos 0..5   *)
(*                (0 = every week, 1..4 = n-th weekday of the month, 5 = last)*)
(*   clockspan == [s, e, split, spread]   s,e minutes of the day 0..1440      *)
(* This is the shape of the real parser's output (timeutil.Schedule), logged  *)
(* by the Go driver.                                                          *)
(*                                                                            *)
(* Windows(sched) is defined *declaratively*: a window is anchored on a day d *)
(* that matches one of the week spans (or any day when there are none) and    *)
(* spans one part of one clock span (00:00 when there are none).              *)
(* This module is constant-level (no variables); RefreshTimer.tla,            *)
(* TimerQueries.tla and TraceRefreshTimer.tla all build on it.                *)
EXTENDS Integers, Sequences, FiniteSets, Calendar

DAY == 86400
MIN == 60

Range(f) == {f[i] : i \in DOMAIN f}

-----------------------------------------------------------------------------
(* Week spans *)

IsSingleDay(ws) == ws.swd = ws.ewd /\ ws.spos = ws.epos

\* number of days after the first day of the span (mon-fri: 4, fri-mon: 3, mon1: 0, mon1-mon: 7)
SpanLen(ws) ==
    IF IsSingleDay(ws) THEN 0
    ELSE LET k == (ws.ewd - ws.swd + 7) % 7 IN IF k = 0 THEN 7 ELSE k

\* documented meaning:
\*   mon-fri    every Monday..Friday            fri-mon   wraps around the week end
\*   mon1       first Monday of the month       mon5      last Monday of the month
\*   mon1-fri   from the first Monday of a month to the following Friday  (anchored at start)
\*   mon-fri1   from the Monday before the first Friday of a month to that Friday (anchored at end)
\*   fri4-thu   may cross into the next month; mon-fri1 may start in the previous month
\* A span numbered at both ends that is not a single day is outside the documented
\* grammar (the parser degrades mon1-tue2 to mon1-tue before we see it); it is read as
\* anchored at the start.
DayMatchesSpan(ws, d) ==
    IF ws.spos = 0 /\ ws.epos = 0
    THEN (Weekday(d) - ws.swd + 7) % 7 <= SpanLen(ws)
    ELSE IF ws.spos # 0
    THEN \E k \in 0..SpanLen(ws) :
            LET a == d - k IN InCalendar(a) /\ Weekday(a) = ws.swd /\ PosMatches(a, ws.spos)
    ELSE \E k \in 0..SpanLen(ws) :
            LET a == d + k IN InCalendar(a) /\ Weekday(a) = ws.ewd /\ PosMatches(a, ws.epos)

DayOK(sched, d) ==
    InCalendar(d) /\ (Len(sched.ws) = 0 \/ \E i \in 1..Len(sched.ws) : DayMatchesSpan(sched.ws[i], d))

-----------------------------------------------------------------------------
(* Clock spans *)

DefaultClockSpan == [s |-> 0, e |-> 0, split |-> 0, spread |-> FALSE]
ClockSpansOf(sched) == IF Len(sched.cs) = 0 THEN <<DefaultClockSpan>> ELSE sched.cs

\* length of the span in minutes; e < s means the span crosses midnight
SpanMinutes(cs) == IF cs.e >= cs.s THEN cs.e - cs.s ELSE 1440 - (cs.s - cs.e)
Parts(cs)       == IF cs.split <= 1 \/ cs.s = cs.e THEN 1 ELSE cs.split
\* "/N" splits the span into N consecutive parts.  Part i (0-based) of A-B/N is
\* [A + i*(B-A)/N, A + (i+1)*(B-A)/N] at the granularity of the clock, which is one minute:
\* its start is truncated to a whole minute and its length is (B-A)/N truncated to whole
\* minutes (this is what timeutil.ClockSpan.ClockSpans computes: an exact step, clocks
\* truncated to minutes).  When N divides the span the parts tile it exactly; otherwise they
\* leave gaps of less than a minute.  In every case all parts lie inside [A, B].
SplitDefined(cs) == SpanMinutes(cs) % Parts(cs) = 0           \* (exact tiling; informational)
PartStartMin(cs, i) == cs.s + (i * SpanMinutes(cs)) \div Parts(cs)
PartEndMin(cs, i)   == PartStartMin(cs, i) + SpanMinutes(cs) \div Parts(cs)

\* the i-th part (0-based) of clock span cs anchored on day d, in seconds.  A window is just
\* [s, e]: whether the event is spread ("~") inside it or placed at its start ("-") does not
\* matter to the property, which only asks for the attempt to fall inside the window.
PartWindow(cs, d, i) ==
    [s |-> d * DAY + PartStartMin(cs, i) * MIN,
     e |-> d * DAY + PartEndMin(cs, i) * MIN]

\* every part lies inside the configured span
PartsInsideSpan(cs) ==
    \A i \in 0..(Parts(cs) - 1) : PartStartMin(cs, i) >= cs.s /\ PartEndMin(cs, i) <= cs.s + SpanMinutes(cs)

WindowsOn(sched, d) ==
    UNION { {PartWindow(cs, d, i) : i \in 0..(Parts(cs) - 1)} : cs \in Range(ClockSpansOf(sched)) }

\* all windows of one event set anchored on days d1..d2
Windows(sched, d1, d2) ==
    UNION { IF DayOK(sched, d) THEN WindowsOn(sched, d) ELSE {} : d \in d1..d2 }

\* all windows of a timer (sequence of event sets) anchored on days d1..d2
TimerWindows(timer, d1, d2) == UNION { Windows(timer[i], d1, d2) : i \in 1..Len(timer) }

\* membership without enumerating a horizon: the anchor day is determined by the start
\* (a start clock of 24:00 puts the start on the following day, hence the two candidates)
IsWindow(sched, w) ==
    \E d \in {w.s \div DAY - 1, w.s \div DAY} : DayOK(sched, d) /\ w \in WindowsOn(sched, d)

TimerSplitDefined(timer) ==
    \A i \in 1..Len(timer) : \A j \in 1..Len(timer[i].cs) : SplitDefined(timer[i].cs[j])

-----------------------------------------------------------------------------
(* The contract of "next refresh" (shared by the protocol spec and the query validator). *)

In(w, t) == w.s <= t /\ t <= w.e

\* what Schedule.Next(last) evaluated at `now` may return for one event set
NextWindowOK(sched, last, now, w) ==
    /\ IsWindow(sched, w)
    /\ w.e >= now
    /\ ~In(w, last)

Fallback(last, max, hour) == [s |-> last + max, e |-> last + max + hour]

\* Given the candidate windows (one per event set), which may be chosen:
\* any candidate starting before the limit if there is one (minimality among them is not
\* demanded), else the fallback; a candidate starting exactly at the limit is as good as the fallback.
Choosable(cands, fb) ==
    LET early == {w \in cands : w.s < fb.s} IN
    IF early # {} THEN early ELSE {fb} \cup {w \in cands : w.s = fb.s}

\* delay d (integer bounds dlo <= d <= dhi, equal when d is a whole number of seconds) is
\* allowed for a chosen timer window c at instant now: now+d lies inside c and is not in the past.
\* (The statement does not demand d = 0 for a window that has already started, only that the
\* attempt falls inside the window.)
DelayInWindowOK(c, now, dlo, dhi) ==
    /\ dlo >= 0
    /\ now + dlo >= c.s
    /\ now + dhi <= c.e

\* ... and when the limit comes first: exactly at the limit, or immediately when overdue
DelayAtLimitOK(fb, now, dlo, dhi) ==
    IF fb.s < now THEN dlo = 0 /\ dhi = 0
    ELSE dlo = fb.s - now /\ dhi = fb.s - now

DelayOK(c, fb, now, dlo, dhi) ==
    IF c = fb THEN DelayAtLimitOK(fb, now, dlo, dhi) ELSE DelayInWindowOK(c, now, dlo, dhi)

-----------------------------------------------------------------------------
(* Token-level recogniser of the documented refresh.timer grammar             *)
(* (doc comment of timeutil.ParseSchedule):                                   *)
(*   eventlist = eventset *( ",," eventset )                                  *)
(*   eventset  = wdaylist / timelist / wdaylist "," timelist                  *)
(*   wdaylist  = wdayset *( "," wdayset )                                     *)
(*   wdayset   = wday / wdaynumber / wdayspan                                 *)
(*   wdayspan  = wday "-" wday / wdaynumber "-" wday / wday "-" wdaynumber    *)
(*   timelist  = timeset *( "," timeset )                                     *)
(*   timeset   = time / timespan                                              *)
(*   timespan  = time ( "-" / "~" ) time [ "/" count ]        count >= 1      *)
(* plus the stated restrictions: week number in 1..5; hours <= 24 and nothing *)
(* after 24:00; a span numbered at both ends (deprecated form, still accepted *)
(* and read as anchored at the start) must not go backwards (mon4-mon1).      *)
(* Tokens are records [k |-> kind, p |-> week position / validity].           *)

TkWD(pos)   == [k |-> "wd", p |-> pos]     \* weekday, pos 0 = unnumbered, 1..5 valid number, other = invalid number
TkTime(ok)  == [k |-> "time", p |-> IF ok THEN 1 ELSE 0]
TkCount(ok) == [k |-> "count", p |-> IF ok THEN 1 ELSE 0]
TkDash  == [k |-> "-", p |-> 0]
TkTilde == [k |-> "~", p |-> 0]
TkComma == [k |-> ",", p |-> 0]

IsWDTok(t)    == t.k = "wd" /\ t.p \in 0..5
IsTimeTok(t)  == t.k = "time" /\ t.p = 1
IsCountTok(t) == t.k = "count" /\ t.p = 1

\* split a token sequence at commas into fragments (a sequence of token sequences)
RECURSIVE SplitAtCommas(_, _, _)
SplitAtCommas(s, i, cur) ==
    IF i > Len(s) THEN <<cur>>
    ELSE IF s[i].k = "," THEN <<cur>> \o SplitAtCommas(s, i + 1, <<>>)
    ELSE SplitAtCommas(s, i + 1, Append(cur, s[i]))

IsWdaySet(f) ==
    \/ Len(f) = 1 /\ IsWDTok(f[1])
    \/ /\ Len(f) = 3 /\ IsWDTok(f[1]) /\ f[2].k = "-" /\ IsWDTok(f[3])
       /\ (f[1].p # 0 /\ f[3].p # 0) => f[3].p >= f[1].p

IsTimeSet(f) ==
    \/ Len(f) = 1 /\ IsTimeTok(f[1])
    \/ /\ Len(f) \in {3, 4}
       /\ IsTimeTok(f[1]) /\ f[2].k \in {"-", "~"} /\ IsTimeTok(f[3])
       /\ Len(f) = 4 => IsCountTok(f[4])

FragClass(f) == IF Len(f) = 0 THEN "E" ELSE IF IsWdaySet(f) THEN "W" ELSE IF IsTimeSet(f) THEN "T" ELSE "X"

\* event sets are separated by ",," i.e. by one empty fragment; inside an event set weekday
\* fragments come before time fragments.  A small automaton over fragment classes:
\* states: "start" (event set expected), "w" (in weekday list), "t" (in time list), "bad"
FragStep(st, c) ==
    CASE st = "start" /\ c = "W" -> "w"
      [] st = "start" /\ c = "T" -> "t"
      [] st = "w" /\ c = "W" -> "w"
      [] st = "w" /\ c = "T" -> "t"
      [] st = "w" /\ c = "E" -> "start"
      [] st = "t" /\ c = "T" -> "t"
      [] st = "t" /\ c = "E" -> "start"
      [] OTHER -> "bad"

RECURSIVE FragRun(_, _, _)
FragRun(frags, i, st) == IF i > Len(frags) THEN st ELSE FragRun(frags, i + 1, FragStep(st, FragClass(frags[i])))

ValidTimer(tokens) ==
    /\ Len(tokens) > 0
    /\ FragRun(SplitAtCommas(tokens, 1, <<>>), 1, "start") \in {"w", "t"}
=============================================================================
