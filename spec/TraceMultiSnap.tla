---------------------------- MODULE TraceMultiSnap ----------------------------
(***************************************************************************)
(* I->T binding for MultiSnap (E01): validates an NDJSON event log         *)
(* recorded from the REAL snapstate.InstallMany / UpdateMany / RemoveMany  *)
(* + TaskRunner (harness/overlay/snapstate/zz_verif_multisnap_test.go)     *)
(* against the actions of MultiSnap, one event per step:                   *)
(*  * the generated task graph of every snap must be SnapSeq's chain, the  *)
(*    chains laid out one after the other (+ check-rerefresh);             *)
(*  * lanes and wait-tasks are TAKEN from the real graph (so that the      *)
(*    engine rules are applied to what the code built) and judged by the   *)
(*    invariant LaneDiscipline and by WaitsOK;                             *)
(*  * after every event the status of EVERY task must be what TaskEngine's *)
(*    rules give (incl. the whole lane abort inside a failure), and the    *)
(*    projected record/world of the snap the event is about must be what   *)
(*    SnapSeq's task effect gives; at Settle every snap is compared.       *)
(* The MultiSnap invariants are evaluated on these real states.            *)
(* Many histories per file, separated by MReset; MCtx adopts the state a   *)
(* context (built by single-snap operations, C10-C13's business) left.     *)
(***************************************************************************)
EXTENDS MultiSnap, IOUtils, Json

Trace == ndJsonDeserialize(IOEnv.VERIF_TRACE)

VARIABLE l
tvars == <<recs, worlds, env, chg, clock, pass, status, waits, lanes, hasUndo, chgOf, rdy, panicked, l>>

TrSnaps == {"some-snap", "some-other-snap", "snap-c"}
TrOrder == <<"some-snap", "some-other-snap", "snap-c">>
TrNone == {}
TrRet == [t |-> "none", v |-> 0]

ToSet(s) == {s[i] : i \in 1..Len(s)}
DecRec(x) == [seq |-> x.seq, cur |-> x.cur, active |-> x.active, chan |-> x.chan, dev |-> x.dev, jail |-> x.jail,
              classic |-> x.classic, try |-> x.try, ignv |-> x.ignv, cohort |-> x.cohort,
              lastRefresh |-> x.lastRefresh, inhibited |-> x.inhibited, rstat |-> ToSet(x.rstat),
              cfg |-> x.cfg, revcfg |-> x.revcfg]
DecWorld(x) == [mounted |-> ToSet(x.mounted), linked |-> x.linked, data |-> ToSet(x.data), common |-> x.common]
DecEnv(st) == [retain |-> st.retain, onClassic |-> st.onClassic, boot |-> {}, kernel |-> FALSE]

Ev == Trace[l]
IsEv(e) == l <= Len(Trace) /\ Trace[l].ev = e /\ l' = l + 1

\* the logged real post-state of one snap must be exactly what the spec action produced
PostSnap(s) == /\ recs'[s] = DecRec(Ev.st.snaps[s])
               /\ worlds'[s] = DecWorld(Ev.st.snaps[s])
               /\ SS!Block(recs'[s]) = ToSet(Ev.st.snaps[s].block)          \* the real SnapState.Block()
PostAll == \A s \in Snaps : PostSnap(s)
\* ... and the real status of every task of the change
PostStatus == \A t \in 1..Len(Ev.tst) : status'[t] = Ev.tst[t]

engineIdle == /\ pass' = NoPass
              /\ status' = [t \in Tasks |-> "Done"] /\ waits' = [t \in Tasks |-> {}] /\ lanes' = [t \in Tasks |-> <<0>>]
              /\ hasUndo' = [t \in Tasks |-> FALSE] /\ chgOf' = [t \in Tasks |-> 2]
              /\ rdy' = [c \in 1..2 |-> FALSE] /\ panicked' = FALSE

TInit == /\ recs = [s \in Snaps |-> SS!EmptyRec] /\ worlds = [s \in Snaps |-> SS!EmptyWorld]
         /\ env = [retain |-> TrRet, onClassic |-> FALSE, boot |-> {}, kernel |-> FALSE]
         /\ chg = IdleChg /\ clock = 0 /\ pass = NoPass
         /\ status = [t \in Tasks |-> "Done"] /\ waits = [t \in Tasks |-> {}] /\ lanes = [t \in Tasks |-> <<0>>]
         /\ hasUndo = [t \in Tasks |-> FALSE] /\ chgOf = [t \in Tasks |-> 2]
         /\ rdy = [c \in 1..2 |-> FALSE] /\ panicked = FALSE
         /\ l = 1

TReset == /\ IsEv("MReset")
          /\ recs' = [s \in Snaps |-> SS!EmptyRec] /\ worlds' = [s \in Snaps |-> SS!EmptyWorld]
          /\ env' = DecEnv(Ev.st) /\ chg' = IdleChg /\ clock' = 0
          /\ engineIdle
          /\ PostAll

\* the context the multi-snap request starts from: adopt the real projection (it must be consistent: ConsistentAll)
TCtx == /\ IsEv("MCtx") /\ Idle
        /\ recs' = [s \in Snaps |-> DecRec(Ev.st.snaps[s])]
        /\ worlds' = [s \in Snaps |-> DecWorld(Ev.st.snaps[s])]
        /\ env' = DecEnv(Ev.st)
        /\ SS!Retain(env') = Ev.st.retainEff                                 \* the real refreshRetain()
        /\ chg' = IdleChg
        /\ UNCHANGED <<clock, pass, status, waits, lanes, hasUndo, chgOf, rdy, panicked>>
        /\ PostAll

\* wait-tasks of the real graph: within the snap's own chain, earlier tasks only, the predecessor among them
\* (then mustWait and the halt-task closure of abortTasks are those of a linear chain)
WaitsOK(ly, W) == \A t \in 1..ly.n :
                      LET o == ly.owner[t] IN
                      IF t = ly.first[o] THEN W[t] = {}
                      ELSE (t - 1) \in W[t] /\ W[t] \subseteq ly.first[o]..(t - 1)

TRequestOk ==
    /\ IsEv("MRequest") /\ Ev.ok /\ Idle
    /\ LET kind == Ev.op.kind
           txn  == Ev.op.txn
           sel  == [i \in 1..Len(Ev.op.snaps) |-> [snap |-> Ev.op.snaps[i].snap, rev |-> Ev.op.snaps[i].rev]]
       IN
       /\ CanRequestAll(kind, sel)
       /\ LET ly == Layout(kind, sel)
              L  == [t \in Tasks |-> IF t <= ly.n THEN Ev.graph[ly.owner[t]].lanes[t - ly.first[ly.owner[t]] + 1]
                                     ELSE IF t = ly.n + 1 /\ HasRR(kind) THEN Ev.extra[1].lanes ELSE <<0>>]
              W  == [t \in Tasks |-> IF t <= ly.n THEN ToSet(Ev.graph[ly.owner[t]].waits[t - ly.first[ly.owner[t]] + 1])
                                     ELSE {}]
          IN
          /\ ly.nt <= MaxTasks
          /\ Len(Ev.graph) = Len(sel)
          \* binds the task-graph generator: every snap's chain is SnapSeq's, laid out one after the other
          /\ \A i \in 1..Len(sel) : /\ Ev.graph[i].snap = sel[i].snap
                                    /\ Ev.graph[i].tasks = ly.chains[i]
                                    /\ Ev.graph[i].first = ly.first[i]
          /\ IF HasRR(kind) THEN Len(Ev.extra) = 1 /\ Ev.extra[1].k = "check-rerefresh" /\ Len(Ev.extra[1].waits) = 0
                            ELSE Len(Ev.extra) = 0
          /\ Len(Ev.strays) = 0
          /\ WaitsOK(ly, W)
          /\ StartMulti(kind, txn, sel, ly, Ev.op.now, L, W)
    /\ clock' = Ev.op.now /\ pass' = NoPass
    /\ UNCHANGED <<recs, worlds, env>>
    /\ PostAll /\ PostStatus

TRequestRefused ==
    /\ IsEv("MRequest") /\ ~Ev.ok /\ Idle
    /\ LET sel == [i \in 1..Len(Ev.op.snaps) |-> [snap |-> Ev.op.snaps[i].snap, rev |-> Ev.op.snaps[i].rev]]
       IN ~CanRequestAll(Ev.op.kind, sel)
    /\ UNCHANGED <<recs, worlds, env, chg, clock, pass, status, waits, lanes, hasUndo, chgOf, rdy, panicked>>
    /\ PostAll

TStart     == /\ IsEv("MStart") /\ Start(Ev.t) /\ PostStatus
TStartUndo == /\ IsEv("MStartUndo") /\ StartUndo(Ev.t) /\ PostStatus
TNoUndo    == /\ IsEv("MNoUndo") /\ NoUndo(Ev.t) /\ PostStatus

TDo == /\ IsEv("MDo")
       /\ IF Ev.t = chg.rr THEN FinishRR ELSE FinishDo(Ev.t) /\ PostSnap(Ev.snap)
       /\ PostStatus

TDoAborted == /\ IsEv("MDoAborted") /\ FinishDoAborted(Ev.t) /\ PostSnap(Ev.snap) /\ PostStatus

TFail == /\ IsEv("MFail") /\ Ev.mode # "undo-error"
         /\ Fail(Ev.t, Ev.mode)
         /\ PostSnap(Ev.snap) /\ PostStatus

TUndo == /\ IsEv("MUndo") /\ FinishUndo(Ev.t) /\ PostSnap(Ev.snap) /\ PostStatus

TAbortHold == /\ IsEv("MAbortHold") /\ Ev.t = chg.rr /\ AbortHoldRR /\ PostStatus

TSettle == /\ IsEv("MSettle") /\ Settle
           /\ chg'.status = Ev.status
           /\ PostAll /\ PostStatus

TNext == TReset \/ TCtx \/ TRequestOk \/ TRequestRefused \/ TStart \/ TStartUndo \/ TNoUndo \/ TDo \/ TDoAborted
         \/ TFail \/ TUndo \/ TAbortHold \/ TSettle

TSpec == TInit /\ [][TNext]_tvars

Accepted == TLCGet("stats").diameter - 1 = Len(Trace)
=============================================================================
