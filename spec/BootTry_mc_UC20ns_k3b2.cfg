\* UC20ns: kernel revisions {1, 2, 3}, base revisions {1, 2}; every interleaving of SetNext/Undo/Mark/Remove/Reboot/BootFail,
\* PowerLoss at every pc of every action and every pipeline stage (state space is finite: no event bound needed)
CONSTANTS
  Variant = "UC20ns"
  KRevs = {1, 2, 3}
  BRevs = {1, 2}
  MaxCK = 3
  MaxFaults = 0
  ExcuseKnown = TRUE
INIT Init
NEXT Next
INVARIANTS TypeOK OnlyGoodOrTried FallbackWorks GoodOnlyAfterMark NeverStuck InUseProtects
CHECK_DEADLOCK FALSE
