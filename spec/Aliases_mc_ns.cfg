\* command namespace: an alias named like snap s2 (s2 not installed initially); alias/unalias/prefer/install/remove, entry faults, 3 requests
CONSTANTS
  Snaps <- MCSnaps
  Names <- MCNamesNs
  Apps <- MCApps
  AutoApps <- MCAuto1
  OpKinds <- MCKindsNs
  InstallFlags <- MCFlags
  FaultModes <- MCFaultsEntry
  InitInst <- MCOne
  RAAUX = FALSE
  LateRemoveFaults = FALSE
  MaxOps = 3
INIT Init
NEXT Next
CHECK_DEADLOCK FALSE
INVARIANTS TypeOK SysMatchesState NoPendingWhenSettled NoDoubleAlias NoNamespaceClash RefreshKeepsManualFollowsDecl FailedChangeRestores
