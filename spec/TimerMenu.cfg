INIT Init
NEXT Next
