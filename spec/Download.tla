------------------------------ MODULE Download ------------------------------
(***************************************************************************)
(* C31 -- a downloaded snap is kept only if its digest matches.            *)
(*                                                                         *)
(* Transcription of store/store_download.go: Store.Download + downloadImpl *)
(* (deltas disabled, no download cache, no cancellation, no filesystem     *)
(* faults) against an adversarial HTTP server.                             *)
(*                                                                         *)
(* Bytes are symbols from {x, y}.  The SHA3-384 digest is abstracted as    *)
(* equality with `content` (collision freedom is assumed, not checked).    *)
(* One step of the spec = one request/response exchange together with all  *)
(* the deterministic client code up to the next request (or to the end of  *)
(* Store.Download).  The only nondeterminism is the initial .partial file, *)
(* the options and the server's choice of response.                        *)
(*                                                                         *)
(* The server chooses, per request, ANY status in {200, 206, 5xx, 4xx} or   *)
(* no response at all, ANY body over {x,y} (bounded length) and whether the *)
(* body ends cleanly (Content-Length honoured) or the connection drops.    *)
(* This subsumes: 206-from-offset, 200-full (Range ignored), truncated     *)
(* after k, corrupted at j, over-long, short-but-complete.  `redir` = the  *)
(* response is delivered through a 302 hop (transparent to the client).    *)
(***************************************************************************)
EXTENDS Naturals, Sequences, FiniteSets, TLC

CONSTANTS
    Sizes,          \* set of content lengths explored (declared size > 0)
    MaxFile,        \* adversary restricted so that the .partial file never exceeds this length
    MaxReq,         \* number of server responses explored per download
    AttemptLimits,  \* retry-loop limits explored (production: 7)
    RedirChoices,   \* {FALSE} or {FALSE, TRUE}
    TruncateOnRestart  \* FALSE = the code as it is (file NOT truncated when the server ignores Range);
                       \* TRUE  = proposed repair (w.Truncate(0) next to w.Seek(0) in downloadImpl)

Bytes == {"x", "y"}

SeqsUpTo(n) == UNION {[1..k -> Bytes] : k \in 0..n}

Absent   == [present |-> FALSE, bytes |-> <<>>]
File(b)  == [present |-> TRUE,  bytes |-> b]

VARIABLES
    content,      \* the bytes whose digest is the expected one (Len = declared size)
    partial,      \* <target>.partial : Absent or File(bytes)
    target,       \* <target>         : Absent or File(bytes)
    pc,           \* "open" | "req" (a request is about to be answered) | "done"
    resume,       \* argument/loop variable `resume` of downloadImpl at the next request
    pos,          \* offset of the open file w
    hash,         \* bytes absorbed by the running hash h when it was last used
    attempt,      \* number of the current attempt of the retry loop (1..maxatt)
    hashRetried,  \* the "retry once from scratch" of Store.Download was used
    leave,        \* DownloadOptions.LeavePartialOnError
    maxatt,       \* retry limit (LimitCount)
    result,       \* "none" | "ok" | "hash" | "other"    (error class returned)
    nreq          \* responses consumed so far

vars == <<content, partial, target, pc, resume, pos, hash, attempt, hashRetried, leave, maxatt, result, nreq>>

Cur == [content |-> content, partial |-> partial, target |-> target, pc |-> pc, resume |-> resume,
        pos |-> pos, hash |-> hash, attempt |-> attempt, hashRetried |-> hashRetried, leave |-> leave,
        maxatt |-> maxatt, result |-> result, nreq |-> nreq]

Set(s) == /\ content' = s.content /\ partial' = s.partial /\ target' = s.target /\ pc' = s.pc
          /\ resume' = s.resume /\ pos' = s.pos /\ hash' = s.hash /\ attempt' = s.attempt
          /\ hashRetried' = s.hashRetried /\ leave' = s.leave /\ maxatt' = s.maxatt
          /\ result' = s.result /\ nreq' = s.nreq

-----------------------------------------------------------------------------
(* file primitives *)

Max(a, b) == IF a > b THEN a ELSE b

\* write(2) of b at offset p (0-based) into a file with bytes f; p <= Len(f) always holds here
WriteAt(f, p, b) ==
    LET n == Max(Len(f), p + Len(b))
    IN  [i \in 1..n |-> IF i > p /\ i <= p + Len(b) THEN b[i - p] ELSE f[i]]

-----------------------------------------------------------------------------
(* Store.Download, end of function *)

\* `return err` with err # nil: the deferred function removes the .partial unless
\* LeavePartialOnError is set and the file is not empty
Fail(s, cls) ==
    [s EXCEPT !.pc = "done", !.result = cls,
              !.partial = IF s.leave /\ Len(s.partial.bytes) > 0 THEN s.partial ELSE Absent]

\* err == nil: os.Rename(partial, target)
Rename(s) ==
    [s EXCEPT !.pc = "done", !.result = "ok", !.target = File(s.partial.bytes), !.partial = Absent]

\* HashError: "retry once": Truncate(0), Seek(0), download(..., resume = 0) with a fresh retry loop
HashError(s) ==
    IF s.hashRetried
    THEN Fail(s, "hash")
    ELSE [s EXCEPT !.pc = "req", !.partial = File(<<>>), !.pos = 0, !.resume = 0, !.hash = <<>>,
                   !.attempt = 1, !.hashRetried = TRUE]

-----------------------------------------------------------------------------
(* Store.Download up to the first request *)

OpenResult(c, p, lv, ma) ==
    LET bytes == IF p.present THEN p.bytes ELSE <<>>      \* O_CREATE
        s0 == [content |-> c, partial |-> File(bytes), target |-> Absent, pc |-> "req",
               resume |-> Len(bytes), pos |-> Len(bytes),   \* w.Seek(0, io.SeekEnd)
               hash |-> <<>>, attempt |-> 1, hashRetried |-> FALSE, leave |-> lv, maxatt |-> ma,
               result |-> "none", nreq |-> 0]
    IN  IF Len(bytes) < Len(c)
        THEN s0                                             \* download(..., resume, ...)
        ELSE \* "we're done! check the hash though": hash of the WHOLE file
             LET s1 == [s0 EXCEPT !.hash = bytes]
             IN  IF bytes = c THEN Rename(s1) ELSE HashError(s1)

-----------------------------------------------------------------------------
(* one iteration of the retry loop of downloadImpl, given the server's response r *)
(* r = [status, body, end, redir]; status 0 = connection closed without a response *)

More(s) == s.attempt < s.maxatt                  \* attempt.More() with LimitCount(maxatt)

NextAttempt(s) == [s EXCEPT !.attempt = s.attempt + 1]

\* state after "seed the sha3 with the already local file" (resume > 0): the whole file is
\* hashed, the offset ends up at the end of the file
Seeded(s) ==
    IF s.resume > 0
    THEN [s EXCEPT !.hash = s.partial.bytes, !.pos = Len(s.partial.bytes)]
    ELSE [s EXCEPT !.hash = <<>>]

\* "resume offset wrong": io.Copy(h, w) returned n # resume
ResumeWrong(s) == s.resume > 0 /\ Len(s.partial.bytes) # s.resume

\* resume > 0 && resp.StatusCode != 206: "server does not support resume":
\* Seek(0), fresh hash, resume = 0.  The file is NOT truncated (stale tail).
RangeIgnored(s, r) == s.resume > 0 /\ r.status # 206

Restarted(s) ==
    [s EXCEPT !.pos = 0, !.hash = <<>>, !.resume = 0,
              !.partial = IF TruncateOnRestart THEN File(<<>>) ELSE s.partial]

\* io.Copy(MultiWriter(w, h, ...), body)
Copied(s, r) ==
    [s EXCEPT !.partial = File(WriteAt(s.partial.bytes, s.pos, r.body)),
              !.pos = s.pos + Len(r.body),
              !.hash = s.hash \o r.body]

Respond(s0, r) ==
    LET sn == [s0 EXCEPT !.nreq = s0.nreq + 1] IN
    IF ResumeWrong(sn) THEN Fail(sn, "other") ELSE
    LET s1 == Seeded(sn) IN
    IF r.status = 0
    THEN \* doRequest failed (EOF): retried without touching resume
         IF More(s1) THEN NextAttempt(s1) ELSE Fail(s1, "other")
    ELSE
    LET s2 == IF RangeIgnored(s1, r) THEN Restarted(s1) ELSE s1 IN
    IF r.status >= 500 /\ More(s2)
    THEN NextAttempt(s2)                                   \* ShouldRetryHttpResponse
    ELSE IF r.status \notin {200, 206}
    THEN Fail(s2, "other")                                 \* DownloadError
    ELSE
    LET s3 == Copied(s2, r) IN
    IF r.end = "drop"
    THEN \* io.ErrUnexpectedEOF: resume = w.Seek(0, io.SeekEnd) -- the LENGTH of the file
         IF More(s3)
         THEN NextAttempt([s3 EXCEPT !.resume = Len(s3.partial.bytes), !.pos = Len(s3.partial.bytes)])
         ELSE Fail(s3, "other")
    ELSE IF s3.hash = s3.content
         THEN Rename(s3)
         ELSE HashError(s3)

-----------------------------------------------------------------------------
(* the adversary *)

BodyResponses == {[status |-> st, body |-> b, end |-> e, redir |-> d] :
                     st \in {200, 206}, b \in SeqsUpTo(MaxFile), e \in {"ok", "drop"}, d \in RedirChoices}
StatusResponses == {[status |-> st, body |-> <<>>, end |-> "ok", redir |-> d] :
                     st \in {500, 404}, d \in RedirChoices}
BodyOK   == {r \in BodyResponses : r.end = "ok"}
BodyDrop == {r \in BodyResponses : r.end = "drop"}
NoResponse == [status |-> 0, body |-> <<>>, end |-> "ok", redir |-> FALSE]

\* where the body would be written (to keep the file within MaxFile)
WritePos(s, r) == IF s.resume > 0 /\ r.status = 206 THEN Len(s.partial.bytes)
                  ELSE IF s.resume > 0 THEN 0 ELSE s.pos
Fits(s, r) == WritePos(s, r) + Len(r.body) <= MaxFile

HashAfter(s, r) == (IF s.resume > 0 /\ r.status = 206 THEN s.partial.bytes ELSE <<>>) \o r.body

IsPrefix(a, b) == Len(a) <= Len(b) /\ a = SubSeq(b, 1, Len(a))

\* the complete responses r with HashAfter(s, r) = s.content
GoodResponses(s) ==
    LET c == s.content
        f == s.partial.bytes
        full == {[status |-> st, body |-> c, end |-> "ok", redir |-> d] :
                    st \in (IF s.resume > 0 THEN {200} ELSE {200, 206}), d \in RedirChoices}
        rest == IF s.resume > 0 /\ IsPrefix(f, c)
                THEN {[status |-> 206, body |-> SubSeq(c, Len(f) + 1, Len(c)), end |-> "ok", redir |-> d] :
                         d \in RedirChoices}
                ELSE {}
    IN  full \cup rest

-----------------------------------------------------------------------------
Init ==
    /\ content \in UNION {[1..n -> Bytes] : n \in Sizes}
    /\ content[1] = "x"          \* w.l.o.g.: the spec is symmetric under renaming of the two symbols
    /\ partial \in {Absent} \cup {File(b) : b \in SeqsUpTo(MaxFile)}
    /\ leave \in BOOLEAN
    /\ maxatt \in AttemptLimits
    /\ target = Absent /\ pc = "open" /\ resume = 0 /\ pos = 0 /\ hash = <<>> /\ attempt = 1
    /\ hashRetried = FALSE /\ result = "none" /\ nreq = 0

\* Store.Download: open, seek to the end, decide between download and "already complete"
OpenDownload   == pc = "open" /\ Len(partial.bytes) < Len(content)
                  /\ Set(OpenResult(content, partial, leave, maxatt))
OpenComplete   == pc = "open" /\ Len(partial.bytes) >= Len(content)
                  /\ Set(OpenResult(content, partial, leave, maxatt))

Ready == pc = "req" /\ nreq < MaxReq

RespNoResponse == Ready /\ Set(Respond(Cur, NoResponse))

Resp5xxRetry   == Ready /\ attempt < maxatt
                  /\ \E r \in StatusResponses : r.status = 500 /\ Set(Respond(Cur, r))
Resp5xxFinal   == Ready /\ attempt = maxatt
                  /\ \E r \in StatusResponses : r.status = 500 /\ Set(Respond(Cur, r))
Resp4xx        == Ready /\ \E r \in StatusResponses : r.status = 404 /\ Set(Respond(Cur, r))

RespDropRetry  == Ready /\ attempt < maxatt
                  /\ \E r \in BodyDrop : Fits(Cur, r) /\ Set(Respond(Cur, r))
RespDropFinal  == Ready /\ attempt = maxatt
                  /\ \E r \in BodyDrop : Fits(Cur, r) /\ Set(Respond(Cur, r))

\* a complete body after which the running hash equals the expected digest
RespHashOK     == Ready /\ \E r \in GoodResponses(Cur) : Fits(Cur, r) /\ Set(Respond(Cur, r))
\* a complete body with a wrong digest: first time => truncate and retry once, second time => fail
RespHashRetry  == Ready /\ ~hashRetried
                  /\ \E r \in BodyOK : Fits(Cur, r) /\ HashAfter(Cur, r) # content /\ Set(Respond(Cur, r))
RespHashFinal  == Ready /\ hashRetried
                  /\ \E r \in BodyOK : Fits(Cur, r) /\ HashAfter(Cur, r) # content /\ Set(Respond(Cur, r))

\* the particular path behind the stale tail (a subset of the transitions above, kept as a separate
\* action only so that -coverage shows it is exercised): Range ignored, new body shorter than the file
RespRangeIgnoredShorter ==
                  Ready /\ resume > 0
                  /\ \E r \in BodyOK : r.status = 200 /\ Len(r.body) < Len(partial.bytes) /\ Fits(Cur, r)
                                        /\ Set(Respond(Cur, r))

Next == \/ OpenDownload \/ OpenComplete
        \/ RespNoResponse \/ Resp5xxRetry \/ Resp5xxFinal \/ Resp4xx
        \/ RespDropRetry \/ RespDropFinal
        \/ RespHashOK \/ RespHashRetry \/ RespHashFinal
        \/ RespRangeIgnoredShorter

Spec == Init /\ [][Next]_vars

-----------------------------------------------------------------------------
(* properties *)

IsFile(f) == f = Absent \/ (f.present /\ f.bytes \in Seq(Bytes))

TypeOK ==
    /\ content \in Seq(Bytes) /\ Len(content) \in Sizes
    /\ IsFile(partial) /\ IsFile(target)
    /\ pc \in {"open", "req", "done"}
    /\ resume \in Nat /\ pos \in Nat /\ hash \in Seq(Bytes)
    /\ attempt \in 1..maxatt /\ hashRetried \in BOOLEAN /\ leave \in BOOLEAN
    /\ result \in {"none", "ok", "hash", "other"}
    /\ (pc = "done") = (result # "none")

\* THE PROPERTY, part 1: a file at the target path has the expected digest
TargetOnlyIfCorrect == target.present => target.bytes = content

\* THE PROPERTY, part 2: a failed download leaves no file at the target
FailureLeavesNoTarget == (pc = "done" /\ result # "ok") => ~target.present

\* a successful download did place the file, and consumed the partial
SuccessPlacesTarget == (pc = "done" /\ result = "ok") => (target.present /\ ~partial.present)

\* without LeavePartialOnError a failure removes the partial
FailureRemovesPartial == (pc = "done" /\ result # "ok" /\ ~leave) => ~partial.present

\* inductive helper: the hash has absorbed exactly the bytes of the file in front of the offset
HashIsFilePrefix ==
    pc = "req" \/ result = "ok" =>
        LET f == IF result = "ok" THEN target.bytes ELSE partial.bytes
        IN  Len(hash) <= Len(f) /\ hash = SubSeq(f, 1, Len(hash))

\* What the code as it is guarantees (weaker than the statement): the target STARTS with the content.
\* The difference to TargetOnlyIfCorrect is exactly the stale tail.
TargetHasContentPrefix ==
    target.present => /\ Len(target.bytes) >= Len(content)
                      /\ SubSeq(target.bytes, 1, Len(content)) = content

\* the stale-tail deviation, for classification of counterexamples
StaleTail == target.present /\ target.bytes # content /\ TargetHasContentPrefix

=============================================================================
