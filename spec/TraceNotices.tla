---------------------------- MODULE TraceNotices ----------------------------
(***************************************************************************)
(* I->T for C08: validates NDJSON event files recorded from a real         *)
(* overlord/state.State (harness/ext/notices) against Notices.tla.  Every  *)
(* line is one event logged under the state lock; many cases are           *)
(* concatenated (Reset).  Strict conformance: the post-state logged by the *)
(* real code after Add/AddAt and every result returned by Notices /        *)
(* WaitNotices must equal what the spec computes; the invariants of        *)
(* Notices.tla are evaluated at every recorded state.                      *)
(***************************************************************************)
EXTENDS Notices, IOUtils, Json

Trace == ndJsonDeserialize(IOEnv.VERIF_TRACE)

VARIABLES l,          \* next line to consume
          cancelled   \* clients whose wait context has been cancelled

tvars == <<vars, l, cancelled>>

TraceClock == 1..1000000
Range(s) == {s[i] : i \in DOMAIN s}
E == Trace[l]
IsEv(e) == l <= Len(Trace) /\ Trace[l].ev = e /\ l' = l + 1

CfgOf(c) == LET r == CHOOSE x \in Range(E.clients) : x.c = c
            IN [uid |-> r.uid, user |-> r.user, types |-> Range(r.types), keys |-> Range(r.keys)]

TInit ==
    /\ l = 1
    /\ cancelled = {}
    /\ clock = 1 /\ lastTs = 0 /\ lastId = 0 /\ notices = {} /\ nadds = 0
    /\ cfg = [c \in Clients |-> F(0, 0, {}, {})]
    /\ cursor = [c \in Clients |-> 0]
    /\ seen = [c \in Clients |-> <<>>]
    /\ wst = [c \in Clients |-> "idle"]
    /\ last = Step("Init", "-", <<>>, <<>>, NoAdd)

TReset ==
    /\ IsEv("Reset")
    /\ \A c \in Clients : wst[c] = "idle"          \* the driver leaves no waiter behind
    /\ {x.c : x \in Range(E.clients)} \subseteq Clients
    /\ cancelled' = {}
    /\ clock' = 1 /\ lastTs' = 0 /\ lastId' = 0 /\ notices' = {} /\ nadds' = 0
    /\ cfg' = [c \in Clients |-> IF \E x \in Range(E.clients) : x.c = c THEN CfgOf(c) ELSE F(0, 0, {}, {})]
    /\ cursor' = [c \in Clients |-> 0]
    /\ seen' = [c \in Clients |-> <<>>]
    /\ wst' = [c \in Clients |-> "idle"]
    /\ last' = Step("Reset", "-", <<>>, <<>>, NoAdd)

TTick == IsEv("Tick") /\ Tick(E.v) /\ UNCHANGED cancelled

LoggedState ==
    /\ notices' = Range(E.notices)
    /\ lastTs' = E.lastTs
    /\ lastId' = E.lastId
    /\ \E n \in notices' : n.id = E.id /\ n.owner = E.o /\ n.type = E.t /\ n.key = E.k   \* returned id

TAdd ==
    /\ IsEv("Add")
    /\ E.o \in Owners /\ E.t \in Types /\ E.k \in Keys
    /\ Add(E.o, E.t, E.k, E.ra, E.d)
    /\ LoggedState
    /\ UNCHANGED cancelled

TAddAt ==
    /\ IsEv("AddAt")
    /\ E.o \in Owners /\ E.t \in Types /\ E.k \in Keys /\ E.at \in AddAtTimes
    /\ AddAt(E.o, E.t, E.k, E.ra, E.d, E.at)
    /\ LoggedState
    /\ UNCHANGED cancelled

TPoll ==
    /\ IsEv("Poll")
    /\ Poll(E.c)
    /\ last'.res = E.res
    /\ UNCHANGED cancelled

(* WaitNotices called.  If something matches already the call returns under the same lock hold: *)
(* the very next line must be its WaitReturn (handled there as a Poll).                         *)
TWaitStart ==
    /\ IsEv("WaitStart")
    /\ wst[E.c] = "idle"
    /\ IF Pending(E.c) = {}
       THEN WaitStart(E.c)
       ELSE /\ l + 1 <= Len(Trace) /\ Trace[l + 1].ev = "WaitReturn" /\ Trace[l + 1].c = E.c
            /\ last' = Step("WaitStart", E.c, <<>>, <<>>, NoAdd)
            /\ UNCHANGED <<clock, lastTs, lastId, notices, nadds, cfg, cursor, seen, wst>>
    /\ UNCHANGED cancelled

TWaitReturn ==
    /\ IsEv("WaitReturn")
    /\ IF E.err = ""
       THEN /\ IF wst[E.c] = "idle"
               THEN /\ l > 1 /\ Trace[l - 1].ev = "WaitStart" /\ Trace[l - 1].c = E.c
                    /\ Pending(E.c) # {}
                    /\ Poll(E.c)
               ELSE /\ wst[E.c] = "woken"
                    /\ Pending(E.c) # {}
                    /\ WakeCheck(E.c)
            /\ last'.res = E.res
            /\ UNCHANGED cancelled
       ELSE /\ E.c \in cancelled
            /\ E.res = <<>>
            /\ WaitTimeout(E.c)
            /\ cancelled' = cancelled \ {E.c}

TCancel ==
    /\ IsEv("Cancel")
    /\ wst[E.c] # "idle"
    /\ cancelled' = cancelled \cup {E.c}
    /\ last' = Step("Cancel", E.c, <<>>, <<>>, NoAdd)
    /\ UNCHANGED <<clock, lastTs, lastId, notices, nadds, cfg, cursor, seen, wst>>

(* after the driver has waited for every waiter the real Notices() reports a match for: *)
(* whoever is still blocked must have nothing owed according to the spec (Wake).        *)
TSettled ==
    /\ IsEv("Settled")
    /\ \A c \in Clients : wst[c] # "idle" <=> c \in Range(E.blocked)
    /\ \A c \in Range(E.blocked) : Pending(c) = {}
    /\ last' = Step("Settled", "-", <<>>, <<>>, NoAdd)
    /\ UNCHANGED <<clock, lastTs, lastId, notices, nadds, cfg, cursor, seen, wst, cancelled>>

(* GET /v2/notices through the real daemon handler: status and result per DaemonFilter + filter semantics *)
TReq ==
    /\ IsEv("Req")
    /\ LET df == DaemonFilter(E.uid, E.uidParam, E.usersAll)
           f == F(E.uid, df.user, Range(E.types), Range(E.keys))
           exp == {n \in notices : MatchesAfter(f, E.after, n)}
       IN /\ E.status = df.status
          /\ IF df.status = 200
             THEN \E res \in Sorts(exp) : VersSeq(res) = E.res
             ELSE E.res = <<>>
    /\ last' = Step("Req", "-", <<E.uid, E.uidParam, E.usersAll, E.status>>, E.res, NoAdd)
    /\ UNCHANGED <<clock, lastTs, lastId, notices, nadds, cfg, cursor, seen, wst, cancelled>>

TNext == TReq \/ TReset \/ TTick \/ TAdd \/ TAddAt \/ TPoll \/ TWaitStart \/ TWaitReturn \/ TCancel \/ TSettled
TSpec == TInit /\ [][TNext]_tvars

(* the action properties of Notices.tla, on every recorded step except the case separator *)
TPollDrainsProp == [][last'.ev # "Reset" => PollDrains]_tvars
TNoPhantomProp == [][last'.ev # "Reset" => NoPhantomAct]_tvars
TRepeatAfterProp == [][last'.ev # "Reset" => RepeatAfterAct]_tvars

Accepted == TLCGet("stats").diameter - 1 = Len(Trace)
=============================================================================
