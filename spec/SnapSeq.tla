------------------------------ MODULE SnapSeq ------------------------------
(***************************************************************************)
(* Explicit state machine of ONE snap's persisted record (SnapState +      *)
(* config) and of the system side ("world": what the backend did), as      *)
(* maintained by overlord/snapstate.  Shared by C10, C11, C12, C13.        *)
(*                                                                         *)
(* Every request (install / refresh / revert / remove / enable / disable)  *)
(* first runs the TASK-GRAPH GENERATOR (transcription of doInstall,        *)
(* removeTasks, removeInactiveRevision, Enable, Disable: a linear chain of *)
(* tasks, including the garbage-collection loops of doInstall), then the   *)
(* chain is executed one task per step.  At any position the task may fail *)
(* (on entry, or inside one of its backend operations, in which case the   *)
(* handler's own clean-up runs); the completed tasks are then undone in    *)
(* reverse order.  Do/Undo effects are transcribed from handlers.go        *)
(* (doLinkSnap/undoLinkSnap incl. move-to-end for kept revisions,          *)
(* old-candidate-index/countMissingRevs, RevertStatus handling,            *)
(* do/undoUnlinkCurrentSnap, do/undoMountSnap, do/undoCopySnapData,        *)
(* do/undoUnlinkSnap incl. "data already removed -> stay inactive",        *)
(* doClearSnapData, doDiscardSnap (no undo), config Save/Restore/Discard   *)
(* RevisionConfig, DeleteSnapConfig).                                      *)
(*                                                                         *)
(* The spec models what the code DOES (it is bound to the code by trace    *)
(* validation, TraceSnapSeq.tla); the properties are stated separately at  *)
(* the end as invariants over quiescent states.                            *)
(***************************************************************************)
EXTENDS Integers, Sequences, FiniteSets, TLC

CONSTANTS
    MaxRev,       \* revisions are 1..MaxRev
    MaxOps,       \* bound on the number of requests+environment actions (logical clock)
    InstallRevs,  \* revisions offered to Install
    AttrOpts,     \* set of attribute bundles [chan, dev, jail, ignv, cohort, leave] offered to requests
    RetainOpts,   \* set of raw refresh.retain values [t, v]
    CfgOpts,      \* config values set by SetConfig (positive integers)
    OnClassicOpts,\* subset of BOOLEAN
    BootOpts,     \* set of sets of revisions that boot may report in use
    KernelOpts,   \* subset of BOOLEAN: is the snap the model's kernel (boot.InUse applies, not removable/disableable)
    OpFaults      \* BOOLEAN: also fail inside backend operations (not only on task entry)

Revs == 1..MaxRev

Range(s) == {s[i] : i \in DOMAIN s}
Max(S) == CHOOSE x \in S : \A y \in S : y <= x
\* snapst.LastIndex, 1-based, 0 when absent
IndexOf(s, x) == IF x \in Range(s) THEN Max({i \in DOMAIN s : s[i] = x}) ELSE 0
Without(s, x) == SelectSeq(s, LAMBDA y : y # x)
Last(s) == s[Len(s)]

VARIABLES
    rec,    \* the snap's record (SnapState projection + config)
    world,  \* system side
    env,    \* refresh.retain raw value, onClassic, boot in-use set
    chg,    \* the change in progress / the last settled change
    clock

vars == <<rec, world, env, chg, clock>>

EmptyRec == [seq |-> <<>>, cur |-> 0, active |-> FALSE, chan |-> "", dev |-> FALSE, jail |-> FALSE,
             classic |-> FALSE, try |-> FALSE, ignv |-> FALSE, cohort |-> "", lastRefresh |-> 0,
             inhibited |-> 0, rstat |-> {}, cfg |-> 0, revcfg |-> [r \in Revs |-> 0]]

EmptyWorld == [mounted |-> {}, linked |-> 0, data |-> {}, common |-> FALSE]

Installed(r) == r.cur # 0

\* SnapState.Block(): revisions after current, minus those marked NotBlocked
Block(r) == LET ci == IndexOf(r.seq, r.cur)
            IN  IF ci = 0 THEN {} ELSE {r.seq[i] : i \in (ci+1)..Len(r.seq)} \ r.rstat

AfterCurrent(r) == LET ci == IndexOf(r.seq, r.cur)
                   IN  IF ci = 0 THEN {} ELSE {r.seq[i] : i \in (ci+1)..Len(r.seq)}

\* refreshRetain(): json.Number / numeric string / unset / zero -> default 2 (classic) or 3 (core)
Retain(e) == LET v == IF e.retain.t \in {"num", "str"} THEN e.retain.v ELSE 0
             IN  IF v = 0 THEN (IF e.onClassic THEN 2 ELSE 3) ELSE v

-----------------------------------------------------------------------------
(* Task-graph generator                                                    *)

T(k) == [k |-> k, r |-> 0]

RECURSIVE Pairs(_)
Pairs(rs) == IF rs = <<>> THEN <<>>
             ELSE <<[k |-> "clear-snap", r |-> Head(rs)], [k |-> "discard-snap", r |-> Head(rs)]>> \o Pairs(Tail(rs))

\* boot.InUse: only snaps that participate in booting (here: the model's kernel) can be in use
InUse(e, x) == e.kernel /\ x \in e.boot

\* the two discard loops of doInstall (only for refreshes)
GCRevs(r, e, target) ==
    LET seq    == r.seq
        ci     == IndexOf(seq, r.cur)
        known  == target \in Range(seq)
        R      == IF known THEN Retain(e) ELSE Retain(e) - 1      \* retain-- : we're adding one
        after  == SelectSeq(SubSeq(seq, ci + 1, Len(seq)), LAMBDA x : x # target)
        before == IndexOf(seq, target) \in 1..(ci - 1)
        seq2   == IF before THEN Without(seq, target) ELSE seq
        ci2    == IF before THEN ci - 1 ELSE ci
        old    == SelectSeq(SubSeq(seq2, 1, ci2 - R), LAMBDA x : ~InUse(e, x))
    IN  after \o old

InstallChain ==
    <<T("prerequisites"), T("download-snap"), T("validate-snap"), T("mount-snap"), T("copy-snap-data"),
      T("setup-profiles"), T("link-snap"), T("auto-connect"), T("set-auto-aliases"), T("setup-aliases"),
      T("run-hook[install]"), T("run-hook[default-configure]"), T("start-snap-services"),
      T("run-hook[configure]"), T("run-hook[check-health]")>>

RefreshChain(r, e, target) ==
    (IF target \in Range(r.seq)
        THEN <<T("prerequisites"), T("prepare-snap")>>
        ELSE <<T("prerequisites"), T("download-snap"), T("validate-snap"), T("mount-snap")>>)
    \o <<T("run-hook[pre-refresh]"), T("stop-snap-services"), T("remove-aliases"), T("unlink-current-snap")>>
    \o (IF e.kernel THEN <<T("update-gadget-assets")>> ELSE <<>>)
    \o <<T("copy-snap-data"), T("setup-profiles"), T("link-snap"), T("auto-connect"), T("set-auto-aliases"),
         T("setup-aliases"), T("run-hook[post-refresh]"), T("start-snap-services")>>
    \o Pairs(GCRevs(r, e, target))
    \o <<T("cleanup"), T("run-hook[configure]"), T("run-hook[check-health]")>>

RevertChain(e) ==
    <<T("prerequisites"), T("prepare-snap"), T("stop-snap-services"), T("remove-aliases"), T("unlink-current-snap")>>
    \o (IF e.kernel THEN <<T("update-gadget-assets")>> ELSE <<>>)
    \o <<T("setup-profiles"), T("link-snap"), T("auto-connect"), T("set-auto-aliases"), T("setup-aliases"),
      T("start-snap-services"), T("run-hook[configure]"), T("run-hook[check-health]")>>

EnableChain == <<T("prepare-snap"), T("setup-profiles"), T("link-snap"), T("setup-aliases"), T("start-snap-services")>>

DisableChain == <<T("stop-snap-services"), T("remove-aliases"), T("unlink-snap"), T("remove-profiles")>>

\* removeTasks: rev = 0 means the whole snap
RemoveAll(r, rev) == rev = 0 \/ Len(r.seq) = 1
RemoveActive(r, rev) == r.active /\ rev = 0
RECURSIVE RevSeq(_, _)   \* sequence reversed, skipping index skip
RevSeq(s, skip) == IF s = <<>> THEN <<>>
                   ELSE (IF Len(s) = skip THEN <<>> ELSE <<Last(s)>>) \o RevSeq(SubSeq(s, 1, Len(s) - 1), skip)
RemoveChain(r, rev) ==
    LET all == RemoveAll(r, rev)
        act == RemoveActive(r, rev)
        ci  == IndexOf(r.seq, r.cur)
    IN  (IF act THEN <<T("stop-snap-services")>> ELSE <<>>)
        \o (IF all THEN <<T("run-hook[remove]"), T("auto-disconnect"), T("save-snapshot")>> ELSE <<>>)
        \o (IF act THEN <<T("remove-aliases"), T("unlink-snap"), T("remove-profiles")>> ELSE <<>>)
        \o (IF all THEN Pairs(RevSeq(r.seq, ci) \o <<r.cur>>) ELSE Pairs(<<rev>>))

-----------------------------------------------------------------------------
(* Requests: preconditions (else the entry point returns an error and no   *)
(* change is created), SnapSetup, chain                                    *)

\* Revert(): previousSideInfo
PrevRev(r) == LET ci == IndexOf(r.seq, r.cur) IN IF ci > 1 THEN r.seq[ci - 1] ELSE 0

RevertTarget(r, op) == IF op.rev = 0 THEN PrevRev(r) ELSE op.rev

CanRequest(r, e, op) ==
    CASE op.kind = "install" -> ~Installed(r)
      \* NB a refresh of a NAMED snap is not subject to Block() ("only enforce refresh block if we are
      \* refreshing everything", storehelpers.go); Block() is what refresh-all / auto-refresh send to the store
      [] op.kind = "refresh" -> Installed(r) /\ r.active /\ op.rev # r.cur
      [] op.kind = "revert"  -> LET t == RevertTarget(r, op)
                                IN  t # 0 /\ t # r.cur /\ r.active /\ t \in Range(r.seq)
      [] op.kind = "remove"  -> /\ Installed(r) /\ (op.rev # 0 => ~(r.active /\ op.rev = r.cur) /\ op.rev \in Range(r.seq))
                                \* policy: the model kernel cannot be removed, nor a revision of it that boot uses
                                /\ (e.kernel => ~RemoveAll(r, op.rev) /\ ~InUse(e, op.rev))
      [] op.kind = "enable"  -> Installed(r) /\ ~r.active
      [] op.kind = "disable" -> Installed(r) /\ r.active /\ ~e.kernel

NoSup == [rev |-> 0, chan |-> "", dev |-> FALSE, jail |-> FALSE, classic |-> FALSE, try |-> FALSE, ignv |-> FALSE,
          cohort |-> "", revert |-> FALSE, nb |-> FALSE]

SupFor(r, op) ==
    CASE op.kind = "install" ->
            [NoSup EXCEPT !.rev = op.rev, !.chan = IF op.chan = "" THEN "latest/stable" ELSE op.chan,
                          !.dev = op.dev, !.jail = op.jail, !.ignv = op.ignv, !.cohort = op.cohort]
      [] op.kind = "refresh" ->
            [NoSup EXCEPT !.rev = op.rev, !.chan = IF op.chan = "" THEN r.chan ELSE op.chan,
                          !.dev = op.dev, !.jail = op.jail, !.ignv = op.ignv,
                          !.cohort = IF op.cohort # "" THEN op.cohort ELSE IF op.leave THEN "" ELSE r.cohort]
      [] op.kind = "revert" ->
            \* flags are inherited from the snap unless any confinement flag is given; channel untouched;
            \* IgnoreValidation and CohortKey are whatever the (empty) SnapSetup says
            LET inherit == ~(op.dev \/ op.jail)
            IN [NoSup EXCEPT !.rev = RevertTarget(r, op), !.revert = TRUE, !.nb = op.nb,
                             !.dev = IF inherit THEN r.dev ELSE op.dev,
                             !.jail = IF inherit THEN r.jail ELSE op.jail,
                             !.classic = IF inherit THEN r.classic ELSE FALSE,
                             !.ignv = op.ignv]
      [] op.kind = "enable" ->
            [NoSup EXCEPT !.rev = r.cur, !.dev = r.dev, !.jail = r.jail, !.classic = r.classic, !.try = r.try,
                          !.ignv = r.ignv]
      [] op.kind = "disable" -> [NoSup EXCEPT !.rev = r.cur]
      [] op.kind = "remove" -> [NoSup EXCEPT !.rev = IF op.rev = 0 THEN r.cur ELSE op.rev]

ChainFor(r, e, op) ==
    CASE op.kind = "install" -> InstallChain
      [] op.kind = "refresh" -> RefreshChain(r, e, op.rev)
      [] op.kind = "revert"  -> RevertChain(e)
      [] op.kind = "enable"  -> EnableChain
      [] op.kind = "disable" -> DisableChain
      [] op.kind = "remove"  -> RemoveChain(r, op.rev)

-----------------------------------------------------------------------------
(* Task effects                                                            *)

NoLoc == [oldcur |-> 0, oldchan |-> "", oldignv |-> FALSE, olddev |-> FALSE, oldjail |-> FALSE, oldclassic |-> FALSE,
          oldtry |-> FALSE, oldcohort |-> "", oldlr |-> 0, oldinh |-> 0, oldidx |-> 0, oldbefore |-> <<>>,
          oldrstat |-> {}, cd |-> FALSE, cc |-> FALSE]

Res(r, w, l) == [rec |-> r, world |-> w, loc |-> l]

\* config.SaveRevisionConfig / RestoreRevisionConfig
SaveRevCfg(r, rev) == IF r.cfg # 0 /\ rev \in Revs THEN [r EXCEPT !.revcfg[rev] = r.cfg] ELSE r
RestoreRevCfg(r, rev) == IF rev \in Revs /\ r.revcfg[rev] # 0 THEN [r EXCEPT !.cfg = r.revcfg[rev]] ELSE r

LinkDo(r, w, sup, now) ==
    LET oldidx == IndexOf(r.seq, sup.rev)
        seq1 == IF oldidx = 0 THEN Append(r.seq, sup.rev)
                ELSE IF ~sup.revert THEN Append(Without(r.seq, sup.rev), sup.rev)   \* move to the end
                ELSE r.seq
        r1 == [r EXCEPT !.seq = seq1, !.cur = sup.rev, !.active = TRUE,
                        !.chan = IF sup.chan # "" THEN sup.chan ELSE r.chan,
                        !.ignv = sup.ignv, !.try = sup.try, !.dev = sup.dev, !.jail = sup.jail,
                        !.classic = sup.classic, !.cohort = sup.cohort,
                        !.inhibited = 0,
                        !.lastRefresh = IF sup.revert THEN r.lastRefresh ELSE now,
                        !.rstat = IF sup.revert
                                     THEN (IF sup.nb THEN r.rstat \cup {r.cur} ELSE r.rstat \ {r.cur})
                                     ELSE r.rstat \ {sup.rev}]
        r2 == IF Installed(r) THEN SaveRevCfg(r1, r.cur) ELSE r1
        r3 == IF sup.revert THEN RestoreRevCfg(r2, sup.rev) ELSE r2
        l  == [NoLoc EXCEPT !.oldcur = r.cur, !.oldchan = r.chan, !.oldignv = r.ignv, !.olddev = r.dev,
                            !.oldjail = r.jail, !.oldclassic = r.classic, !.oldtry = r.try,
                            !.oldcohort = r.cohort, !.oldlr = r.lastRefresh, !.oldinh = r.inhibited,
                            !.oldidx = oldidx,
                            !.oldbefore = IF oldidx > 0 /\ ~sup.revert THEN SubSeq(r.seq, 1, oldidx - 1) ELSE <<>>,
                            !.oldrstat = r.rstat]
    IN Res(r3, [w EXCEPT !.linked = sup.rev], l)

LinkUndo(r, w, sup, l) ==
    LET ci   == IndexOf(r.seq, r.cur)
        n    == Len(r.seq)
        seq1 == IF l.oldidx = 0
                   THEN SubSeq(r.seq, 1, ci - 1) \o SubSeq(r.seq, ci + 1, n)
                ELSE IF ~sup.revert
                   THEN LET missing == Cardinality({i \in DOMAIN l.oldbefore : l.oldbefore[i] \notin Range(r.seq)})  \* countMissingRevs
                            idx == l.oldidx - missing
                            cand == r.seq[ci]
                        IN  \* copy(seq[idx+1:], seq[idx:]); seq[idx] = cand    (1-based: idx; the last element drops off)
                            SubSeq(r.seq, 1, idx - 1) \o <<cand>> \o SubSeq(r.seq, idx, n - 1)
                ELSE r.seq
        r1 == [r EXCEPT !.seq = seq1, !.cur = l.oldcur, !.active = FALSE, !.chan = l.oldchan, !.ignv = l.oldignv,
                        !.try = l.oldtry, !.dev = l.olddev, !.jail = l.oldjail, !.classic = l.oldclassic,
                        !.inhibited = l.oldinh, !.lastRefresh = l.oldlr, !.cohort = l.oldcohort,
                        !.rstat = l.oldrstat]    \* "old-revert-status" is saved by every link-snap (fix 2565626)
        r2 == IF Len(seq1) > 0 THEN RestoreRevCfg(r1, l.oldcur)
              ELSE [EmptyRec EXCEPT !.revcfg = r.revcfg]   \* Set() drops the entry; DeleteSnapConfig
    IN Res(r2, [w EXCEPT !.linked = 0], NoLoc)

DiscardDo(r, w, rev) ==
    LET seq1 == IF Len(r.seq) = 1 THEN <<>> ELSE Without(r.seq, rev)
        cur1 == IF seq1 = <<>> THEN 0 ELSE IF r.cur = rev THEN Last(seq1) ELSE r.cur
        r1 == IF seq1 = <<>>
                 THEN [EmptyRec EXCEPT !.revcfg = [r.revcfg EXCEPT ![rev] = 0]]   \* entry dropped, config deleted
                 ELSE [r EXCEPT !.seq = seq1, !.cur = cur1, !.rstat = @ \ {rev}, !.revcfg[rev] = 0]
    IN Res(r1, [w EXCEPT !.mounted = @ \ {rev}], NoLoc)

DoTask(r, w, sup, t, now) ==
    CASE t.k = "mount-snap" -> Res(r, [w EXCEPT !.mounted = @ \cup {sup.rev}], NoLoc)
      [] t.k = "unlink-current-snap" -> Res([r EXCEPT !.active = FALSE], [w EXCEPT !.linked = 0], NoLoc)
      [] t.k = "copy-snap-data" ->
            Res(r, [w EXCEPT !.data = @ \cup {sup.rev}, !.common = TRUE],
                [NoLoc EXCEPT !.cd = sup.rev \notin w.data, !.cc = ~w.common])
      [] t.k = "link-snap" -> LinkDo(r, w, sup, now)
      [] t.k = "unlink-snap" -> Res([r EXCEPT !.active = FALSE], [w EXCEPT !.linked = 0], NoLoc)
      [] t.k = "clear-snap" ->
            Res(r, [w EXCEPT !.data = @ \ {t.r}, !.common = IF Len(r.seq) = 1 THEN FALSE ELSE @], NoLoc)
      [] t.k = "discard-snap" -> DiscardDo(r, w, t.r)
      [] OTHER -> Res(r, w, NoLoc)

\* doDiscardSnap refuses to discard the active current revision ("internal error ... still active")
DoFailsItself(r, t) == t.k = "discard-snap" /\ r.cur = t.r /\ r.active

UndoTask(r, w, sup, t, l) ==
    CASE t.k = "mount-snap" -> Res(r, [w EXCEPT !.mounted = @ \ {sup.rev}], NoLoc)
      [] t.k = "unlink-current-snap" -> Res([r EXCEPT !.active = TRUE], [w EXCEPT !.linked = r.cur], NoLoc)
      [] t.k = "copy-snap-data" ->
            Res(r, [w EXCEPT !.data = IF l.cd THEN @ \ {sup.rev} ELSE @, !.common = IF l.cc THEN FALSE ELSE @], NoLoc)
      [] t.k = "link-snap" -> LinkUndo(r, w, sup, l)
      [] t.k = "unlink-snap" ->
            \* "cannot link snap back, some of its data has already been removed"
            IF sup.rev \in w.data /\ w.common
               THEN Res([r EXCEPT !.active = TRUE], [w EXCEPT !.linked = r.cur], NoLoc)
               ELSE Res(r, w, NoLoc)
      [] OTHER -> Res(r, w, NoLoc)

\* kinds whose undo has no modelled effect (or that have no undo handler at all)
UndoIsNoop(k) == k \notin {"mount-snap", "unlink-current-snap", "copy-snap-data", "link-snap", "unlink-snap"}

\* A task fails inside backend operation `mode` ("op:<name>"): effects of the part of the handler that ran,
\* including the handler's own clean-up.  "entry" (and any operation not listed) = no effect.
LastRev(r) == Len(r.seq) = 1
FailTask(r, w, sup, t, mode) ==
    CASE t.k = "copy-snap-data" /\ mode = "op:setup-snap-save-data" ->
            Res(r, [w EXCEPT !.data = @ \cup {sup.rev}, !.common = TRUE], NoLoc)     \* copy done, not undone
      [] t.k = "unlink-current-snap" /\ mode = "op:unlink-snap" ->
            Res(r, [w EXCEPT !.linked = r.cur], NoLoc)                                  \* restoreUnlinkOnError
      [] t.k = "link-snap" /\ mode = "op:link-snap" ->
            Res(r, [w EXCEPT !.linked = 0], NoLoc)                                      \* deferred UnlinkSnap(new)
      [] t.k = "clear-snap" /\ mode = "op:remove-snap-common-data" ->
            Res(r, [w EXCEPT !.data = @ \ {t.r}], NoLoc)
      [] t.k = "clear-snap" /\ mode \in {"op:remove-snap-save-data", "op:remove-snap-data-dir"} ->
            Res(r, [w EXCEPT !.data = @ \ {t.r}, !.common = FALSE], NoLoc)
      \* doDiscardSnap of the last revision: files are gone, the record is not yet written  (PartialDiscard)
      [] t.k = "discard-snap" /\ mode = "op:remove-snap-mount-units" ->
            Res(r, [w EXCEPT !.mounted = @ \ {t.r}], NoLoc)
      [] t.k = "discard-snap" /\ mode \in {"op:remove-inhibit-lock", "op:remove-snap-dir"} ->
            Res([r EXCEPT !.cfg = 0], [w EXCEPT !.mounted = @ \ {t.r}], NoLoc)
      [] OTHER -> Res(r, w, NoLoc)

\* backend-operation failure modes with a distinct effect, per task (used by the model checker)
OpModes(r, t) ==
    CASE t.k = "mount-snap" -> {"op:setup-snap"}
      [] t.k = "unlink-current-snap" -> {"op:unlink-snap"}
      [] t.k = "copy-snap-data" -> {"op:copy-data", "op:setup-snap-save-data"}
      [] t.k = "link-snap" -> {"op:link-snap"}
      [] t.k = "unlink-snap" -> {"op:unlink-snap"}
      [] t.k = "clear-snap" -> {"op:remove-snap-data"} \cup
                               (IF LastRev(r) THEN {"op:remove-snap-common-data", "op:remove-snap-save-data"} ELSE {})
      [] t.k = "discard-snap" -> IF LastRev(r) THEN {"op:remove-snap-mount-units", "op:remove-snap-dir"} ELSE {}
      [] OTHER -> {}

\* PartialDiscard (named deviation from C11): doDiscardSnap of the LAST revision removes the snap's files and
\* only then can fail in RemoveContainerMountUnits / RemoveSnapInhibitLock / RemoveSnapDir; discard has no undo,
\* so the record keeps listing a revision that is no longer on the system.  `tainted` marks the states after it
\* (until the snap is removed completely); C11_Consistent is stated for untainted states and the real
\* occurrences are reported from the real projections by the check.
PartialDiscardMode(t, mode) == t.k = "discard-snap" /\ mode \in {"op:remove-snap-mount-units", "op:remove-inhibit-lock", "op:remove-snap-dir"}

-----------------------------------------------------------------------------
(* The state machine                                                       *)

IdleChg == [phase |-> "idle", kind |-> "none", op |-> [kind |-> "none"], sup |-> NoSup, chain |-> <<>>, pc |-> 1,
            done |-> {}, loc |-> <<>>, pre |-> [rec |-> EmptyRec, world |-> EmptyWorld], disc |-> {},
            status |-> "none", now |-> 0, retain |-> 0, boot |-> {}, tainted |-> FALSE,
            fail |-> [idx |-> 0, mode |-> ""]]

Init ==
    /\ rec = EmptyRec
    /\ world = EmptyWorld
    /\ env \in [retain : {[t |-> "none", v |-> 0]}, onClassic : OnClassicOpts, boot : {{}}, kernel : KernelOpts]
    /\ chg = IdleChg
    /\ clock = 0

Idle == chg.phase = "idle"

StartChange(op, now) ==
    chg' = [phase |-> "do", kind |-> op.kind, op |-> op, sup |-> SupFor(rec, op), chain |-> ChainFor(rec, env, op),
            pc |-> 1, done |-> {}, loc |-> [i \in 1..Len(ChainFor(rec, env, op)) |-> NoLoc],
            pre |-> [rec |-> rec, world |-> world], disc |-> {}, status |-> "doing", now |-> now,
            retain |-> Retain(env), boot |-> IF env.kernel THEN env.boot ELSE {}, tainted |-> chg.tainted,
            fail |-> [idx |-> 0, mode |-> ""]]

Request(op) ==
    /\ Idle /\ clock < MaxOps
    /\ CanRequest(rec, env, op)
    /\ StartChange(op, clock + 1)
    /\ clock' = clock + 1
    /\ UNCHANGED <<rec, world, env>>

StepDo ==
    /\ chg.phase = "do" /\ chg.pc <= Len(chg.chain)
    /\ LET t == chg.chain[chg.pc] IN
       /\ ~DoFailsItself(rec, t)
       /\ LET res == DoTask(rec, world, chg.sup, t, chg.now) IN
          /\ rec' = res.rec /\ world' = res.world
          /\ chg' = [chg EXCEPT !.pc = @ + 1, !.done = @ \cup {chg.pc}, !.loc[chg.pc] = res.loc,
                                !.disc = IF t.k = "discard-snap" THEN @ \cup {t.r} ELSE @,
                                \* a completed removal of the whole snap ends the PartialDiscard deviation
                                !.tainted = IF t.k = "discard-snap" /\ res.rec.seq = <<>> THEN FALSE ELSE @]
    /\ UNCHANGED <<env, clock>>

StepFail(mode) ==
    /\ chg.phase = "do" /\ chg.pc <= Len(chg.chain)
    /\ LET t == chg.chain[chg.pc]
           res == FailTask(rec, world, chg.sup, t, mode) IN
       /\ rec' = res.rec /\ world' = res.world
       /\ chg' = [chg EXCEPT !.phase = "undo", !.status = "undoing", !.fail = [idx |-> chg.pc, mode |-> mode],
                             !.tainted = @ \/ PartialDiscardMode(t, mode)]
    /\ UNCHANGED <<env, clock>>

Finish ==
    /\ chg.phase = "do" /\ chg.pc > Len(chg.chain)
    /\ chg' = [chg EXCEPT !.phase = "idle", !.status = "Done"]
    /\ UNCHANGED <<rec, world, env, clock>>

UndoAt(i) ==
    /\ chg.phase = "undo" /\ i \in chg.done
    /\ LET res == UndoTask(rec, world, chg.sup, chg.chain[i], chg.loc[i]) IN
       /\ rec' = res.rec /\ world' = res.world
       /\ chg' = [chg EXCEPT !.done = {j \in @ : j < i}]
    /\ UNCHANGED <<env, clock>>

StepUndo == chg.phase = "undo" /\ chg.done # {} /\ UndoAt(Max(chg.done))

SettleError ==
    /\ chg.phase = "undo" /\ chg.done = {}
    /\ chg' = [chg EXCEPT !.phase = "idle", !.status = "Error"]
    /\ UNCHANGED <<rec, world, env, clock>>

\* environment
SetRetain(v) == /\ Idle /\ clock < MaxOps /\ env' = [env EXCEPT !.retain = v] /\ clock' = clock + 1
                /\ chg' = [chg EXCEPT !.status = "none"] /\ UNCHANGED <<rec, world>>
SetConfig(v) == /\ Idle /\ clock < MaxOps /\ Installed(rec) /\ rec' = [rec EXCEPT !.cfg = v] /\ clock' = clock + 1
                /\ chg' = [chg EXCEPT !.status = "none"] /\ UNCHANGED <<world, env>>
Inhibit(now) == /\ Idle /\ Installed(rec) /\ rec' = [rec EXCEPT !.inhibited = now]
                /\ chg' = [chg EXCEPT !.status = "none"]
SetBoot(b)   == /\ Idle /\ clock < MaxOps /\ env' = [env EXCEPT !.boot = b] /\ clock' = clock + 1
                /\ chg' = [chg EXCEPT !.status = "none"] /\ UNCHANGED <<rec, world>>

\* operations offered to the model checker
MkOp(kind, rev, a, nb) == [kind |-> kind, rev |-> rev, chan |-> a.chan, dev |-> a.dev, jail |-> a.jail,
                           ignv |-> a.ignv, cohort |-> a.cohort, leave |-> a.leave, nb |-> nb, store |-> FALSE]
PlainAttr == [chan |-> "", dev |-> FALSE, jail |-> FALSE, ignv |-> FALSE, cohort |-> "", leave |-> FALSE]
McOps ==
    {MkOp("install", r, [a EXCEPT !.cohort = "", !.leave = FALSE], FALSE) : r \in InstallRevs, a \in AttrOpts}
    \cup {MkOp("refresh", r, [a EXCEPT !.cohort = "", !.leave = FALSE], FALSE) : r \in Revs, a \in AttrOpts}
    \cup {[MkOp("refresh", r, a, FALSE) EXCEPT !.store = TRUE] : r \in Revs, a \in AttrOpts}
    \cup {MkOp("revert", r, PlainAttr, nb) : r \in 0..MaxRev, nb \in BOOLEAN}
    \cup {MkOp("remove", r, PlainAttr, FALSE) : r \in 0..MaxRev}
    \cup {MkOp("enable", 0, PlainAttr, FALSE), MkOp("disable", 0, PlainAttr, FALSE)}

\* the task at pc fails: on entry, or (OpFaults) inside any of its backend operations
AnyFail == \E mode \in {"entry"} \cup (IF OpFaults /\ chg.phase = "do" /\ chg.pc <= Len(chg.chain)
                                          THEN OpModes(rec, chg.chain[chg.pc]) ELSE {}) : StepFail(mode)
InhibitNow == clock < MaxOps /\ Inhibit(clock + 1) /\ clock' = clock + 1 /\ UNCHANGED <<world, env>>

Next ==
    \/ \E op \in McOps : Request(op)
    \/ StepDo
    \/ AnyFail
    \/ Finish
    \/ StepUndo
    \/ SettleError
    \/ \E v \in RetainOpts : SetRetain(v)
    \/ \E v \in CfgOpts : SetConfig(v)
    \/ InhibitNow
    \/ \E b \in BootOpts : SetBoot(b)

Spec == Init /\ [][Next]_vars

-----------------------------------------------------------------------------
(* Properties (state invariants over quiescent states; `chg` keeps the     *)
(* pre-state and outcome of the last settled change)                       *)

TypeOK ==
    /\ rec.cur \in 0..MaxRev /\ Range(rec.seq) \subseteq Revs
    /\ Cardinality(Range(rec.seq)) = Len(rec.seq)          \* no duplicates
    /\ world.mounted \subseteq Revs /\ world.linked \in 0..MaxRev

\* C11 -- after every settled change record and system agree
C11_Consistent ==
    (Idle /\ ~chg.tainted) =>
        IF rec.seq # <<>>
           THEN /\ rec.cur \in Range(rec.seq)
                /\ world.mounted = Range(rec.seq)
                /\ (rec.active <=> world.linked = rec.cur)
                /\ (~rec.active => world.linked = 0)
           ELSE /\ rec = [EmptyRec EXCEPT !.revcfg = rec.revcfg] /\ rec.cfg = 0 /\ \A r \in Revs : rec.revcfg[r] = 0
                /\ world.mounted = {} /\ world.linked = 0

FailedIRR == Idle /\ chg.status = "Error" /\ chg.kind \in {"install", "refresh", "revert"}

\* what the statement allows to differ: revisions irrevocably discarded before the fault
PreSeqSurvivors == SelectSeq(chg.pre.rec.seq, LAMBDA x : x \notin chg.disc)

\* C10 -- a failed install/refresh/revert leaves the snap exactly as it was (all listed fields but Block)
C10_Restored ==
    FailedIRR =>
        LET p == chg.pre.rec IN
        /\ Installed(rec) = Installed(p)
        /\ rec.cur = p.cur
        /\ rec.seq = PreSeqSurvivors
        /\ rec.active = p.active /\ rec.chan = p.chan
        /\ rec.dev = p.dev /\ rec.jail = p.jail /\ rec.classic = p.classic /\ rec.try = p.try
        /\ rec.ignv = p.ignv /\ rec.cohort = p.cohort
        /\ rec.lastRefresh = p.lastRefresh /\ rec.inhibited = p.inhibited
        /\ rec.cfg = p.cfg
        /\ world.linked = chg.pre.world.linked
        /\ world.mounted = chg.pre.world.mounted \ chg.disc

\* C10, the "which kept revisions are blocked from automatic refresh" clause
C10_BlockRestored == FailedIRR => Block(rec) = Block(chg.pre.rec) \ chg.disc

DoneRefresh == Idle /\ chg.status = "Done" /\ chg.kind = "refresh"
Card(S) == Cardinality(S)
MaxOf(a, b) == IF a > b THEN a ELSE b

\* C12 -- retain bound and in-use protection
C12_Retain ==
    DoneRefresh =>
        LET p == chg.pre.rec
            R == chg.retain
            target == chg.sup.rev
            kept == Range(rec.seq)
        IN
        /\ Card(kept \ chg.boot) <= MaxOf(R, Len(p.seq))
        /\ (target \notin Range(p.seq) => Card(kept \ chg.boot) <= R)
        /\ \A r \in AfterCurrent(p) : r # target => r \notin kept
        /\ target \in kept /\ rec.cur = target
        \* in-use revisions are never discarded -- except (InUseAfterCurrent, named deviation) by the
        \* "discard everything after current" loop of doInstall, which does not consult boot.InUse
        /\ ((chg.boot \cap Range(p.seq)) \ AfterCurrent(p)) \subseteq kept

\* the strict clause of the statement: NO revision in use for booting is ever discarded
C12_InUseStrict ==
    DoneRefresh => (chg.boot \cap Range(chg.pre.rec.seq)) \subseteq Range(rec.seq)

DoneRevert == Idle /\ chg.status = "Done" /\ chg.kind = "revert"

\* C13 -- revert in place, blocking
C13_Revert ==
    DoneRevert =>
        LET p == chg.pre.rec
            target == chg.sup.rev
            nbset == (p.rstat \ {p.cur}) \cup (IF chg.sup.nb THEN {p.cur} ELSE {})
        IN
        /\ rec.seq = p.seq
        /\ rec.cur = target
        /\ \A i \in DOMAIN chg.chain : chg.chain[i].k # "copy-snap-data"
        /\ world.data = chg.pre.world.data
        /\ Block(rec) = AfterCurrent(rec) \ nbset
        /\ (p.cur \in AfterCurrent(rec) => (p.cur \in Block(rec) <=> ~chg.sup.nb))

\* requests that must be refused never start a change (checked on the spec as: a started revert satisfies
\* the preconditions; on the real code the trace spec checks ok = CanRequest and that nothing changed)
C13_RevertPre ==
    (chg.kind = "revert" /\ chg.phase # "idle") =>
        LET p == chg.pre.rec IN chg.sup.rev \in Range(p.seq) /\ chg.sup.rev # p.cur /\ p.active

\* bound for TLC
StateConstraint == clock <= MaxOps
=============================================================================
