SPECIFICATION TraceSpec
CONSTANTS
  MaxChunks = 3
  Variants = {"good"}
  AnyNames = {"target", "tmp"}
  AnyFileFds = {1}
  AnyDirFds = {2}
  AnyChunks = 2
  AnyMaxInodes = 3
  AnyMaxHist = 4
  AnyMaxLen = 2
  AnyMaxSteps = 8
  AnyFaults = TRUE
  MaxFaults = 1
INVARIANTS TypeOK OldOrNew NoEarlyExposure
POSTCONDITION Accepted
CHECK_DEADLOCK FALSE
