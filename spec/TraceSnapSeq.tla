---------------------------- MODULE TraceSnapSeq ----------------------------
(***************************************************************************)
(* I->T binding for SnapSeq: validates an NDJSON event log recorded from   *)
(* the REAL SnapManager/TaskRunner (harness/overlay/snapstate/             *)
(* zz_verif_snapseq_test.go) against the actions of SnapSeq, one event per *)
(* step, with the full projected state after every event.  The SnapSeq     *)
(* invariants (C10-C13) are evaluated on the real projected states.        *)
(*                                                                         *)
(* One file holds many histories of ONE snap, separated by Reset events.   *)
(***************************************************************************)
EXTENDS SnapSeq, IOUtils, Json

Trace == ndJsonDeserialize(IOEnv.VERIF_TRACE)

VARIABLE l
tvars == <<rec, world, env, chg, clock, l>>

\* dummies for the constants only used by the model-checking Next
TrNone == {}
TrBool == {FALSE}

ToSet(s) == {s[i] : i \in 1..Len(s)}
DecRec(x) == [seq |-> x.seq, cur |-> x.cur, active |-> x.active, chan |-> x.chan, dev |-> x.dev, jail |-> x.jail,
              classic |-> x.classic, try |-> x.try, ignv |-> x.ignv, cohort |-> x.cohort,
              lastRefresh |-> x.lastRefresh, inhibited |-> x.inhibited, rstat |-> ToSet(x.rstat),
              cfg |-> x.cfg, revcfg |-> x.revcfg]
DecWorld(x) == [mounted |-> ToSet(x.mounted), linked |-> x.linked, data |-> ToSet(x.data), common |-> x.common]
DecEnv(st) == [retain |-> st.retain, onClassic |-> st.onClassic, boot |-> ToSet(st.boot), kernel |-> st.kernel]

Ev == Trace[l]
IsEv(e) == l <= Len(Trace) /\ Trace[l].ev = e /\ l' = l + 1

\* the logged real post-state must be exactly what the spec action produced
Post == /\ rec' = DecRec(Ev.st.rec)
        /\ world' = DecWorld(Ev.st.rec)
        /\ env' = DecEnv(Ev.st)
        /\ Block(rec') = ToSet(Ev.st.rec.block)          \* the real SnapState.Block()
        /\ Retain(env') = Ev.st.retainEff                \* the real refreshRetain()

TInit == /\ rec = EmptyRec /\ world = EmptyWorld /\ chg = IdleChg /\ clock = 0
         /\ env = [retain |-> [t |-> "none", v |-> 0], onClassic |-> FALSE, boot |-> {}, kernel |-> FALSE]
         /\ l = 1

TReset == /\ IsEv("Reset")
          /\ rec' = EmptyRec /\ world' = EmptyWorld /\ chg' = IdleChg /\ clock' = 0
          /\ env' = DecEnv(Ev.st)
          /\ env'.retain.t = "none" /\ env'.boot = {}
          /\ Post

TRequestOk ==
    /\ IsEv("Request") /\ Ev.ok
    /\ Idle
    /\ CanRequest(rec, env, Ev.op)
    /\ Ev.tasks = ChainFor(rec, env, Ev.op)              \* binds the task-graph generator
    /\ StartChange(Ev.op, Ev.op.now)
    /\ clock' = Ev.op.now
    /\ UNCHANGED <<rec, world, env>>
    /\ Post

TRequestRefused ==
    /\ IsEv("Request") /\ ~Ev.ok
    /\ Idle
    /\ ~CanRequest(rec, env, Ev.op)
    /\ chg' = [chg EXCEPT !.status = "none"]
    /\ UNCHANGED <<rec, world, env, clock>>
    /\ Post

TDo == /\ IsEv("Do") /\ Ev.idx = chg.pc /\ StepDo /\ Post

TFail == /\ IsEv("Fail") /\ Ev.idx = chg.pc
         /\ Ev.mode # "undo-error" /\ Ev.mode # "unexpected"
         /\ (Ev.mode = "self" <=> DoFailsItself(rec, chg.chain[chg.pc]))
         /\ StepFail(Ev.mode)
         /\ Post

\* only tasks with an undo handler produce an Undo event; skipping a task is allowed only if its undo is a no-op
TUndo == /\ IsEv("Undo")
         /\ \A j \in chg.done : j > Ev.idx => UndoIsNoop(chg.chain[j].k)
         /\ UndoAt(Ev.idx)
         /\ Post

TSettle ==
    /\ IsEv("Settle")
    /\ \/ Ev.status = "Done" /\ Finish
       \/ /\ Ev.status = "Error" /\ chg.phase = "undo"
          /\ \A j \in chg.done : UndoIsNoop(chg.chain[j].k)
          /\ chg' = [chg EXCEPT !.phase = "idle", !.status = "Error", !.done = {}]
          /\ UNCHANGED <<rec, world, env, clock>>
    /\ Post

TSetRetain ==
    /\ IsEv("SetRetain")
    /\ SetRetain(IF Ev.op.val = 0 THEN [t |-> "none", v |-> 0]
                 ELSE [t |-> IF Ev.op.str THEN "str" ELSE "num", v |-> Ev.op.val])
    /\ Post
TSetConfig == /\ IsEv("SetConfig") /\ SetConfig(Ev.op.val) /\ Post
TInhibit   == /\ IsEv("Inhibit") /\ Inhibit(Ev.op.now) /\ clock' = Ev.op.now /\ UNCHANGED <<world, env>> /\ Post
TSetBoot   == /\ IsEv("SetBoot") /\ SetBoot(ToSet(Ev.boot)) /\ Post

\* RefreshCandidates (the refresh-all store query) is read-only
TCandidates == /\ IsEv("Candidates") /\ Idle /\ chg' = [chg EXCEPT !.status = "none"]
               /\ UNCHANGED <<rec, world, env, clock>> /\ Post

TNext == TCandidates \/ TReset \/ TRequestOk \/ TRequestRefused \/ TDo \/ TFail \/ TUndo \/ TSettle
         \/ TSetRetain \/ TSetConfig \/ TInhibit \/ TSetBoot

TSpec == TInit /\ [][TNext]_tvars

Accepted == TLCGet("stats").diameter - 1 = Len(Trace)
=============================================================================
