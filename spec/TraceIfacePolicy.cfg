CONSTANTS Mode = "tiny"
  NCand = 9
INIT TInit
NEXT TNext
CHECK_DEADLOCK FALSE
