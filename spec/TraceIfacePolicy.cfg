CONSTANTS Mode = "tiny"
  NCand = 10
INIT TInit
NEXT TNext
CHECK_DEADLOCK FALSE
