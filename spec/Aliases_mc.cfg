\* quick exhaustive config: 2 snaps (both installed, no aliases), 2 alias names, 2 apps (declarations name c1), every request kind and install flag, a fault (on entry / at the first backend alias operation) at any task, histories of 2 requests (declaration changes are free)
CONSTANTS
  Snaps <- MCSnaps
  Names <- MCNames2
  Apps <- MCApps
  AutoApps <- MCAuto1
  OpKinds <- MCAllKinds
  InstallFlags <- MCFlags
  FaultModes <- MCFaultsAtomic
  InitInst <- MCBoth
  RAAUX = FALSE
  LateRemoveFaults = FALSE
  MaxOps = 2
INIT Init
NEXT Next
CHECK_DEADLOCK FALSE
INVARIANTS TypeOK SysMatchesState NoPendingWhenSettled NoDoubleAlias NoNamespaceClash RefreshKeepsManualFollowsDecl FailedChangeRestores
