\* quick exhaustive config: 2 snaps (both installed, no aliases), 2 alias names, 2 apps (declarations name c1),
\* every request kind, a fault (on entry / at the 1st or 2nd backend alias operation) at any task, 3 requests
CONSTANTS
  Snaps <- MCSnaps
  Names <- MCNames2
  Apps <- MCApps
  AutoApps <- MCAuto1
  OpKinds <- MCAllKinds
  InstallFlags <- MCFlags
  FaultModes <- MCFaultsAtomic
  InitInst <- MCBoth
  RAAUX = FALSE
  MaxOps = 3
INIT Init
NEXT Next
CHECK_DEADLOCK FALSE
INVARIANTS TypeOK SysMatchesState NoPendingWhenSettled NoDoubleAlias NoNamespaceClash RefreshKeepsManualFollowsDecl FailedChangeRestores
