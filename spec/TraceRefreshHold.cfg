\* default-duration traces: every C15 invariant is evaluated on the real states
CONSTANTS
  Snaps <- MCSnaps3
  Gaters <- MCSnaps3
  HoldSets <- MCHoldSets
  Ticks <- MCTicks
  SysDurs <- MCSysDurs
  ExplicitDurs <- MCNoDurs
  MaxSteps = 0
INIT TInit
NEXT TNext
CHECK_DEADLOCK FALSE
INVARIANTS TypeOK OtherBound GlobalBound UntilBound RefusedAtBound SystemSurvivesRefresh SystemLasts
POSTCONDITION Accepted
