----------------------------- MODULE DownloadSim -----------------------------
(* T->I generator for C31: Download.tla plus a history variable recording the  *)
(* server's responses, run with -simulate; every behaviour becomes a script    *)
(* replayed into the real Store.Download.                                      *)
EXTENDS Download

VARIABLE script

AllResponses == BodyResponses \cup StatusResponses \cup {NoResponse}

SimInit == Init /\ script = <<>>

SimNext == \/ (OpenDownload \/ OpenComplete) /\ UNCHANGED script
           \/ /\ Ready
              /\ \E r \in AllResponses : Fits(Cur, r) /\ Set(Respond(Cur, r)) /\ script' = Append(script, r)
=============================================================================
