---------------------------- MODULE PathPatternTable ----------------------------
(* C37 T->I: tabulate the reference into IOEnv.VERIF_OUT, in the factored form
       RefMatch(p, path)  ==  \E v \in Expand(p) : PPM(v, path)
   VERIF_MODE = "expand"  for every pattern (AST) of the domain file: NumVariants, Accepted, and
                          Expand (a pattern marked big or over the limit: count only); and for
                          every pattern string of Domain.strings: Valid  (one JVM start for both)
   VERIF_MODE = "glob"    for every brace-less pattern string of Domain.strings (the distinct
                          expansions found by "expand"): the indices of the paths it matches (PPM)
                          *)
EXTENDS PathPattern

ExpandRow(pr) ==
    LET n == Tree(pr.ast)
        cnt == CountN(n)
    IN  [id |-> pr.id, n |-> cnt, ok |-> cnt <= Limit,
         ex |-> IF pr.big \/ cnt > Limit THEN <<>> ELSE ExpandN(n)]
ExpandTable == [rows |-> Force([i \in 1..NP |-> ExpandRow(Pats[i])]),
                valid |-> Force([i \in 1..Len(Domain.strings) |-> Valid(Domain.strings[i])])]

MatchIdx(v) == SelectSeq(PathIdx, LAMBDA j : PPM(v, Paths[j]))
GlobTable == [npaths |-> Len(Paths), rows |-> Force([i \in 1..Len(Domain.strings) |-> MatchIdx(Domain.strings[i])])]

TInit == x = 1
ASSUME JsonSerialize(IOEnv.VERIF_OUT,
                     CASE IOEnv.VERIF_MODE = "expand" -> ExpandTable
                       [] IOEnv.VERIF_MODE = "glob" -> GlobTable)
=============================================================================
