--------------------------- MODULE TraceSnapshotIO ---------------------------
(***************************************************************************)
(* I->T binding for C32: validates NDJSON traces recorded from the real     *)
(* backend.Import / Reader.Restore / RestoreState.Revert|Cleanup            *)
(* (harness/overlay/snapshotbackend/zz_verif_snapshotio_test.go) against    *)
(* the step functions of SnapshotIO.tla.                                    *)
(*  import : IStart, then per tar member the code asked for: IMember (the   *)
(*           member) and IObs (listing of the snapshots directory when the  *)
(*           code asks for the NEXT header), finally IEnd (error class,     *)
(*           listing, paths touched outside the snapshots directory)        *)
(*  restore: RStart (inputs + abstract pre-state), RTar (each invocation of *)
(*           tar --extract: which entry, whether the harness makes it fail, *)
(*           abstract state of the data dirs at that instant), RDone        *)
(*           (error?, state), RAfter (Revert / Cleanup after success)       *)
(***************************************************************************)
EXTENDS SnapshotIO, IOUtils, Json

Trace == ndJsonDeserialize(IOEnv.VERIF_TRACE)

VARIABLE l

IsEv(e) == l <= Len(Trace) /\ Trace[l].ev = e /\ l' = l + 1

Range(f) == {f[i] : i \in DOMAIN f}

FilesEq(list, files) == {<<x.p, x.c>> : x \in Range(list)} = {<<p, files[p]>> : p \in DOMAIN files}

TIStart == /\ IsEv("IStart")
           /\ LET a  == Trace[l].args
                  s0 == IStartState(a.nodup, a.lockheld, a.subdir)
              IN  /\ FilesEq(Trace[l].obs.files, s0.files)
                  /\ mode' = "import" /\ im' = IBegin(s0) /\ r' = NoR

TIMember == /\ IsEv("IMember")
            /\ mode = "import" /\ im.pc = "reading"
            /\ im' = IMemberStep(im, Trace[l].args)
            /\ UNCHANGED <<mode, r>>

TIObs == /\ IsEv("IObs")
         /\ mode = "import"
         /\ FilesEq(Trace[l].obs.files, im.files)
         /\ UNCHANGED vars

Outside(s) == {t \in s.touched : t.up > 0 \/ t.path = <<>>}

TIEnd == /\ IsEv("IEnd")
         /\ mode = "import"
         /\ LET a  == Trace[l].args
                o  == Trace[l].obs
                s1 == IF im.pc = "done" THEN im
                      ELSE IEndStream(im, IF a.end = "notreached" THEN "clean" ELSE a.end)
            IN  /\ (a.end = "notreached") => im.pc \in {"failed", "done"}
                /\ o.err = s1.err
                /\ FilesEq(o.files, s1.files)
                /\ (Len(o.outside) = 0) = (Outside(s1) = {})
                /\ o.nnames = (IF s1.err = "none" THEN s1.nnames ELSE 0)
                /\ im' = s1
         /\ UNCHANGED <<mode, r>>

ObsEq(o, s) == \A e \in s.entries :
                  /\ o.parents[e] = s.parent[e]
                  /\ \A sl \in Slots : o.slots[e][sl] = s.slots[e][sl]
                  /\ o.asides[e] = Cardinality(s.aside[e])

TRStart == /\ IsEv("RStart")
           /\ LET a  == Trace[l].args
                  o  == Trace[l].obs
                  es == Range(a.entries)
                  arch == [e \in es |-> [saved |-> Range(a.saved[e]), corrupt |-> a.corrupt[e]]]
                  sl == [e \in es |-> [s \in Slots |-> o.slots[e][s]]]
                  pa == [e \in es |-> o.parents[e]]
              IN  /\ mode' = "restore" /\ im' = NoIm
                  /\ r' = RInitState(es, arch, sl, pa, a.current)

\* finish the entry in progress (its tar outcome is known from the RTar line that started it)
Finished(s) == IF s.pc = "idle" THEN s ELSE RSettle(RunEntry(s))

TRTar == /\ IsEv("RTar")
         /\ mode = "restore"
         /\ LET a  == Trace[l].args
                s1 == Finished(r)
                s2 == RStep(RBeginEntry(s1, a.entry, a.fail))
            IN  /\ s1.pc = "idle" /\ a.entry \in s1.todo
                /\ ObsEq(Trace[l].obs, s2)
                /\ r' = s2
         /\ UNCHANGED <<mode, im>>

TRDone == /\ IsEv("RDone")
          /\ mode = "restore"
          /\ LET o  == Trace[l].obs
                 s0 == Finished(r)
                 s1 == IF ~Trace[l].args.opened
                       THEN [r EXCEPT !.pc = "failed"]      \* backend.Open refused the file: Restore never ran
                       ELSE IF s0.pc = "idle" /\ s0.todo = {} THEN [s0 EXCEPT !.pc = "restored"] ELSE s0
             IN  /\ ~Trace[l].args.opened => (r.pc = "idle" /\ r.todo = {} /\ r.cur = "-")
                 /\ s1.pc \in {"failed", "restored"}
                 /\ o.err = (s1.pc = "failed")
                 /\ ObsEq(o.state, s1)
                 /\ r' = s1
          /\ UNCHANGED <<mode, im>>

TRAfter == /\ IsEv("RAfter")
           /\ mode = "restore" /\ r.pc = "restored"
           /\ LET s1 == IF Trace[l].args.op = "revert" THEN [Revert(r) EXCEPT !.pc = "reverted"]
                        ELSE [Cleanup(r) EXCEPT !.pc = "cleaned"]
              IN  /\ ObsEq(Trace[l].obs.state, s1)
                  /\ r' = s1
           /\ UNCHANGED <<mode, im>>

TInit == l = 1 /\ mode = "none" /\ im = NoIm /\ r = NoR

TNext == TIStart \/ TIMember \/ TIObs \/ TIEnd \/ TRStart \/ TRTar \/ TRDone \/ TRAfter

Accepted == TLCGet("stats").diameter - 1 = Len(Trace)
=============================================================================
