\* C38 offset-write and raw content, <= 2 structures, no pruning
CONSTANTS
  MinStart = 2
  MbrMax = 1
  PtrSize = 1
  MaxStructs = 2
  OffVals <- OffSmall
  SizeVals = {1, 2, 3}
  MinVals = {0, 1}
  RoleVals = {"none", "mbr", "system-data"}
  OwVals <- OwSmall
  ContentVals <- ContentSmall
  PartialVals = {FALSE}
  Prune = FALSE
INIT Init
NEXT Next
CHECK_DEADLOCK FALSE
INVARIANTS
  InvNonNegative
  InvIncreasing
  InvDisjoint
  InvContentInside
  InvOrderIsPermutation
