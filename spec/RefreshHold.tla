---------------------------- MODULE RefreshHold ----------------------------
(***************************************************************************)
(* C15 -- snap-initiated refresh holds are bounded.                        *)
(*                                                                         *)
(* Transcription of overlord/snapstate/autorefresh_gating.go at the grain  *)
(* of its critical sections (each function runs under the state lock):     *)
(*   HoldRefresh (snap and "system" branches), HoldRefreshesBySystem,      *)
(*   ProceedWithRefresh, resetGatingForRefreshed (+ doLinkSnap recording   *)
(*   LastRefreshTime), pruneGating, HeldSnaps.                             *)
(* Time is in integer hours.  The state key "snaps-hold" is the variable   *)
(* `hold` : held snap -> holder -> [first, until, level]  (None = absent). *)
(* `reported` is what HeldSnaps returns for both levels at the current     *)
(* clock (it is a function of the other variables in the spec; the trace   *)
(* spec takes it from the REAL HeldSnaps so the invariants are evaluated   *)
(* on what the real code reports).                                         *)
(* History variables (never read by the actions' effect on hold):          *)
(*   epStart[s][g]  start of the current hold episode of g on s: first     *)
(*                  accepted hold since the episode last ended (own        *)
(*                  proceed, refusal, refresh of s, prune) -- driven by    *)
(*                  requests/outcomes, not by the stored entries           *)
(*   sysReq[s]      what the administrator last asked for on s             *)
(*   mon            monitor record of the last action (for the action      *)
(*                  properties RefusedAtBound / SystemSurvivesRefresh)     *)
(***************************************************************************)
EXTENDS Integers, FiniteSets, Sequences, TLC

CONSTANTS Snaps,         \* installed snaps (strings)
          Gaters,        \* subset of Snaps that issue holds / proceeds
          HoldSets,      \* set of non-empty subsets of Snaps used as "affecting snaps" arguments
          Ticks,         \* clock advances (hours)
          SysDurs,       \* durations (hours, > 0) for system holds; Forever stands for "forever"
          ExplicitDurs,  \* explicit hold durations (hours) for HoldFor; {} = default durations only
          MaxSteps

System   == "system"
Holders  == Snaps \cup {System}
OtherMax == 48            \* maxOtherHoldDuration
Post     == 90 * 24       \* maxPostponement - maxPostponementBuffer
MaxPost  == 95 * 24       \* maxPostponement
Forever  == 9999999       \* projection of now + maxDuration (290 years)
LAuto    == 0             \* HoldAutoRefresh
LGeneral == 1             \* HoldGeneral
Levels   == {LAuto, LGeneral}

None     == [first |-> -1, until |-> -1, level |-> -1]
NoReq    == [until |-> -1, level |-> -1]

VARIABLES now, lastRefresh, hold, reported, epStart, sysReq, mon, steps
core == <<now, lastRefresh, hold>>
vars == <<now, lastRefresh, hold, reported, epStart, sysReq, mon, steps>>

Has(h, s, g) == h[s][g] # None
Min(a, b)    == IF a < b THEN a ELSE b
SetMin(S)    == CHOOSE x \in S : \A y \in S : x <= y

(***************************************************************************)
(* Pure transcriptions                                                     *)
(***************************************************************************)
MaxDur(g, s) == IF g = s THEN Post ELSE OtherMax          \* maxAllowedPostponement

\* holdDurationLeft(now, lastRefresh, firstHeld, maxDur, mp)
Left(h, lr, t, g, s) ==
    LET first == IF Has(h, s, g) THEN h[s][g].first ELSE t
        d1    == first + MaxDur(g, s) - t
        d2    == lr[s] + Post - t
    IN  IF d1 < d2 THEN d1 ELSE d2

\* HoldRefresh for a gating snap g (g # "system"); dur = 0 means "default (maximum)".
\* Result: [hold, ok, remaining]
SnapRefused(h, lr, t, g, S, dur) ==
    {s \in S : Left(h, lr, t, g, s) <= 0 \/ (dur # 0 /\ dur > MaxDur(g, s))}

SnapHoldNext(h, lr, t, g, S, dur, lvl) ==
    LET bad == SnapRefused(h, lr, t, g, S, dur)
        ent(s) == LET left == Left(h, lr, t, g, s)
                      d    == IF dur = 0 THEN left ELSE dur
                  IN  [first |-> IF Has(h, s, g) THEN h[s][g].first ELSE t,
                       until |-> Min(t + d, lr[s] + Post),
                       level |-> lvl]
    IN  IF bad # {}
        THEN [hold |-> [s \in Snaps |-> IF s \in S THEN [h[s] EXCEPT ![g] = None] ELSE h[s]],
              ok |-> FALSE, remaining |-> 0]
        ELSE [hold |-> [s \in Snaps |-> IF s \in S THEN [h[s] EXCEPT ![g] = ent(s)] ELSE h[s]],
              ok |-> TRUE, remaining |-> SetMin({Left(h, lr, t, g, s) : s \in S})]

\* HoldRefreshesBySystem / HoldRefresh("system"): never refused. d = Forever means "forever".
SysHoldNext(h, t, S, d, lvl) ==
    [s \in Snaps |-> IF s \in S
        THEN [h[s] EXCEPT ![System] = [first |-> IF Has(h, s, System) THEN h[s][System].first ELSE t,
                                       until |-> IF d = Forever THEN Forever ELSE t + d,
                                       level |-> lvl]]
        ELSE h[s]]

\* ProceedWithRefresh(g, S): S = {} means all snaps held by g
ProceedNext(h, g, S) ==
    [s \in Snaps |-> IF S = {} \/ s \in S THEN [h[s] EXCEPT ![g] = None] ELSE h[s]]

\* pruneHoldStatesForSnap: drops every non-system holder
PruneOf(h, P) == [s \in Snaps |-> IF s \in P THEN [g \in Holders |-> IF g = System THEN h[s][g] ELSE None] ELSE h[s]]

\* pruneGating(candidates): for every held snap that is not a candidate, non-system holds are dropped --
\* but the result is stored only if the LAST snap visited (Go map order) reported a change
\* (`changed = pruneHoldStatesForSnap(...)` overwrites).  Nondeterministic outcome set.
HeldKeys(h)   == {s \in Snaps : \E g \in Holders : Has(h, s, g)}
PruneGatingOutcomes(h, C) ==
    LET N == HeldKeys(h) \ C
        T == {s \in N : \E g \in Snaps : Has(h, s, g)}     \* visiting it yields changed = true
        F == N \ T                                         \* only a system hold: changed = false
    IN  (IF T # {} THEN {PruneOf(h, T)} ELSE {}) \cup (IF F # {} \/ T = {} THEN {h} ELSE {})

\* HeldSnaps(level)
ReportedAt(h, lr, t, lvl) ==
    [s \in Snaps |-> {g \in Holders :
        /\ Has(h, s, g)
        /\ h[s][g].level >= lvl
        /\ (g = System \/ ~(lr[s] + MaxPost < t))
        /\ ~(h[s][g].until < t)}]
ReportedOf(h, lr, t) == <<ReportedAt(h, lr, t, LAuto), ReportedAt(h, lr, t, LGeneral)>>

\* LongestGatingHold(s): -1 stands for the zero time
LongestGating(h, s) ==
    LET U == {h[s][g].until : g \in {x \in Snaps : Has(h, s, x)}}
    IN  IF U = {} THEN -1 ELSE CHOOSE x \in U : \A y \in U : y <= x

(***************************************************************************)
(* History / monitors (shared by the spec and the trace spec: they only    *)
(* look at the unprimed and primed core variables and the request)         *)
(***************************************************************************)
\* Legitimate ends of the episode of holder h on snap s: h itself proceeds on s, a hold request of h that covers s
\* is refused (the code then drops all of h's holds on the requested set), s is refreshed, or s has no update any
\* more (prune).  NOTHING ELSE ends an episode -- in particular not another snap proceeding, nor the hold running out.
EpEnds(kind, g, S, refused, s, h) ==
    \/ (kind = "Proceed" /\ h = g /\ (S = {} \/ s \in S))
    \/ (kind \in {"Hold", "HoldFor"} /\ h = g /\ refused /\ s \in S)
    \/ (kind = "Refreshed" /\ s \in S /\ h # System)
    \/ (kind = "Prune" /\ s \notin S /\ h # System)

\* epStart is driven by the requests and their outcomes only, never by what happens to be stored in snaps-hold
\* (an entry that survives a lost prune keeps its episode: the code keeps its first-held too)
EpNext(kind, g, S, refused) == [s \in Snaps |-> [h \in Holders |->
    IF EpEnds(kind, g, S, refused, s, h)
    THEN (IF Has(hold', s, h) THEN epStart[s][h] ELSE -1)
    ELSE IF kind \in {"Hold", "HoldFor", "SystemHold"} /\ h = g /\ s \in S /\ ~refused /\ epStart[s][h] = -1
    THEN now
    ELSE epStart[s][h]]]

\* the bound is reached for request Hold(g, S) in the current state
AtBound(g, S) == \E s \in S :
    \/ (g # s /\ epStart[s][g] >= 0 /\ now >= epStart[s][g] + OtherMax)
    \/ now >= lastRefresh[s] + Post

NoMon == [kind |-> "none", atBound |-> FALSE, refused |-> FALSE, sysKept |-> TRUE]

History(kind, g, S, refused, sreq) ==
    /\ epStart' = EpNext(kind, g, S, refused)
    /\ sysReq'  = sreq
    /\ steps'   = steps + 1
    /\ mon'     = [kind    |-> kind,
                   atBound |-> IF kind = "Hold" THEN AtBound(g, S) ELSE FALSE,
                   refused |-> refused,
                   sysKept |-> IF kind = "Refreshed"
                               THEN \A s \in S : hold'[s][System] = hold[s][System] ELSE TRUE]

(***************************************************************************)
(* Actions                                                                 *)
(***************************************************************************)
Init ==
    /\ now = 0
    /\ lastRefresh = [s \in Snaps |-> 0]
    /\ hold = [s \in Snaps |-> [g \in Holders |-> None]]
    /\ reported = ReportedOf(hold, lastRefresh, now)
    /\ epStart = [s \in Snaps |-> [g \in Holders |-> -1]]
    /\ sysReq = [s \in Snaps |-> NoReq]
    /\ mon = NoMon
    /\ steps = 0

Derived == reported' = ReportedOf(hold', lastRefresh', now')

\* snapctl refresh --hold / gate-auto-refresh hook error path: default duration, level auto-refresh
Hold(g, S) ==
    LET r == SnapHoldNext(hold, lastRefresh, now, g, S, 0, LAuto) IN
    /\ hold' = r.hold
    /\ UNCHANGED <<now, lastRefresh>>
    /\ Derived
    /\ History("Hold", g, S, ~r.ok, sysReq)

\* explicit duration (no production caller passes one; kept to expose what the bound depends on)
HoldFor(g, S, d) ==
    LET r == SnapHoldNext(hold, lastRefresh, now, g, S, d, LAuto) IN
    /\ hold' = r.hold
    /\ UNCHANGED <<now, lastRefresh>>
    /\ Derived
    /\ History("HoldFor", g, S, ~r.ok, sysReq)

SystemHold(S, d, lvl) ==
    /\ hold' = SysHoldNext(hold, now, S, d, lvl)
    /\ UNCHANGED <<now, lastRefresh>>
    /\ Derived
    /\ History("SystemHold", System, S, FALSE,
               [s \in Snaps |-> IF s \in S THEN [until |-> IF d = Forever THEN Forever ELSE now + d, level |-> lvl]
                                ELSE sysReq[s]])

Proceed(g, S) ==
    /\ hold' = ProceedNext(hold, g, S)
    /\ UNCHANGED <<now, lastRefresh>>
    /\ Derived
    /\ History("Proceed", g, S, FALSE,
               IF g = System THEN [s \in Snaps |-> IF S = {} \/ s \in S THEN NoReq ELSE sysReq[s]] ELSE sysReq)

\* a refresh of s: doInstall resets the gating of s, doLinkSnap records LastRefreshTime
Refreshed(s) ==
    /\ hold' = PruneOf(hold, {s})
    /\ lastRefresh' = [lastRefresh EXCEPT ![s] = now]
    /\ UNCHANGED now
    /\ Derived
    /\ History("Refreshed", System, {s}, FALSE, sysReq)

\* a refresh of s that is undone after link-snap (a later task of the change failed): the request had reset the gating
\* of s, but the snap was not refreshed -- lastRefresh must not move (undoLinkSnap restores last-refresh-time)
FailedRefresh(s) ==
    /\ hold' = PruneOf(hold, {s})
    /\ UNCHANGED <<now, lastRefresh>>
    /\ Derived
    /\ History("Refreshed", System, {s}, FALSE, sysReq)

PruneCandidates(C) ==
    /\ hold' \in PruneGatingOutcomes(hold, C)
    /\ UNCHANGED <<now, lastRefresh>>
    /\ Derived
    /\ History("Prune", System, C, FALSE, sysReq)

Tick(d) ==
    /\ now' = now + d
    /\ UNCHANGED <<lastRefresh, hold>>
    /\ Derived
    /\ History("Tick", System, {}, FALSE, sysReq)

Go == steps < MaxSteps
AHold        == Go /\ \E g \in Gaters, S \in HoldSets : Hold(g, S)
AHoldFor     == Go /\ \E g \in Gaters, S \in HoldSets, d \in ExplicitDurs : HoldFor(g, S, d)
ASystemHold  == Go /\ \E S \in HoldSets, d \in SysDurs, lvl \in Levels : SystemHold(S, d, lvl)
AProceed     == Go /\ \E g \in Gaters \cup {System}, S \in HoldSets \cup {{}} : Proceed(g, S)
ARefreshed   == Go /\ \E s \in Snaps : (Refreshed(s) \/ FailedRefresh(s))
APrune       == Go /\ \E C \in HoldSets \cup {{}} : PruneCandidates(C)
ATick        == Go /\ \E d \in Ticks : Tick(d)

Next == AHold \/ AHoldFor \/ ASystemHold \/ AProceed \/ ARefreshed \/ APrune \/ ATick

Spec == Init /\ [][Next]_vars

(***************************************************************************)
(* Properties (C15)                                                        *)
(***************************************************************************)
RepAuto(s) == reported[1][s]
RepGen(s)  == reported[2][s]

TypeOK ==
    /\ now \in Nat
    /\ \A s \in Snaps : RepGen(s) \subseteq RepAuto(s) /\ RepAuto(s) \subseteq Holders

\* a snap never keeps ANOTHER snap held more than 48h after it first held it in the current episode
OtherBound ==
    \A s \in Snaps, g \in Snaps :
        (g # s /\ g \in RepAuto(s)) => (epStart[s][g] >= 0 /\ now <= epStart[s][g] + OtherMax)

\* no snap-initiated hold is reported beyond 90 days after the held snap's last refresh
GlobalBound ==
    \A s \in Snaps, g \in Snaps : g \in RepAuto(s) => now <= lastRefresh[s] + Post

\* stored hold-until of a snap-initiated hold never exceeds lastRefresh + 90d
UntilBound ==
    \A s \in Snaps, g \in Snaps : Has(hold, s, g) => hold[s][g].until <= lastRefresh[s] + Post

\* once a bound is reached, a further hold request is refused
RefusedAtBound == (mon.kind = "Hold" /\ mon.atBound) => mon.refused

\* administrator holds survive refreshes ...
SystemSurvivesRefresh == mon.sysKept

\* ... and are reported exactly until the requested time, at the requested level
SystemLasts ==
    \A s \in Snaps : sysReq[s] # NoReq =>
        /\ (System \in RepAuto(s)) <=> (now <= sysReq[s].until)
        /\ (System \in RepGen(s))  <=> (now <= sysReq[s].until /\ sysReq[s].level >= LGeneral)

(***************************************************************************)
(* Model constants                                                         *)
(***************************************************************************)
MCSnaps3     == {"a", "b", "c"}
MCSnaps2     == {"a", "b"}
MCGaters     == {"a", "b"}
MCHoldSetsQ  == {{"a"}, {"b"}, {"a", "b"}}
MCHoldSets   == {{"a"}, {"c"}, {"a", "c"}, {"b", "c"}}
MCHoldSets3Q == {{"a"}, {"c"}, {"a", "c"}}
MCTicksQ     == {1, 47, 49, 91 * 24}
MCTicks      == {1, 24, 47, 49, 30 * 24, 89 * 24, 91 * 24, 96 * 24}
MCSysDurs    == {24, Forever}
MCSysDurs3   == {24, 100 * 24, Forever}
MCNoDurs     == {}
MCDurs       == {24, 48}
=============================================================================
