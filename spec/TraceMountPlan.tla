-------------------------- MODULE TraceMountPlan --------------------------
(* I->T for C28: every line of the NDJSON file is one update recorded from the REAL
   executeMountProfileUpdate / neededChanges (harness/overlay/snap-update-ns/zz_verif_mountplan_test.go):
   {ev:"Update", case, step, cur, des, plan:[{act,e,ok,synth}], res, aborted, rt, hist}.
   The spec walks the file as the history loop of MountPlan (current' = recorded result, which must be the
   next line's current; truth' = true order of mounting computed by the spec from the plans) and evaluates
   every clause of the property on every update.  Instead of stopping at the first violated clause it
   collects <<line, violated clauses>> and writes them to IOEnv.VERIF_VIOL, so that one run reports every
   failing case (a known finding must not mask a new one).                                                 *)
EXTENDS MountPlan, IOUtils, Json

Trace == ndJsonDeserialize(IOEnv.VERIF_TRACE)
MaxViol == 400

VARIABLES l, current, truth, viol, stats
vars == <<l, current, truth, viol, stats>>

U(r) == [cur |-> r.cur, des |-> r.des, plan |-> r.plan, res |-> r.res, aborted |-> r.aborted]

SameMountPoint(a, b) == a.d = b.d /\ a.t = b.t

\* observable cause of "log[pr[1]] is unmounted while log[pr[2]], mounted beneath it later, is kept"
StrandCause(u, log, pr) ==
    IF \E k \in Keeps(u) : u.plan[k].e # log[pr[2]] /\ SameMountPoint(u.plan[k].e, log[pr[2]])
    THEN "/kept-entry-has-same-dir-and-type-as-another-kept-entry"
    ELSE IF log[pr[1]].g = "overname" \/ log[pr[2]].g = "overname" THEN "/overname-entry-involved"
    ELSE IF \E k \in Keeps(u) : u.plan[k].e.p = log[pr[1]].p THEN "/entry-in-same-directory-kept"
    ELSE ""

\* violated clauses of one update; sub-classes name the observable cause so that a known finding can be
\* told apart from any other way of violating the same clause
Tags(r, log) ==
    LET u == U(r) IN
      (IF PlanCoversCurrent(u) THEN {} ELSE {"PlanCoversCurrent"})
 \cup (IF ApplyMatches(u) THEN {} ELSE {"ApplyMatches"})
 \cup (IF r.rt THEN {} ELSE {"ProfileRoundTrip"})
 \cup (IF u.aborted \/ ResultMissing(u) = {} THEN {}
       ELSE IF \A e \in ResultMissing(u) : \E j \in Keeps(u) : SameMountPoint(u.plan[j].e, e)
            THEN {"Result.missing-desired/same-dir-and-type-as-kept-entry"}
            ELSE {"Result.missing-desired/other"})
 \cup (IF u.aborted \/ ResultStale(u) = {} THEN {}
       ELSE IF \A e \in ResultStale(u) :
                  \E j \in Keeps(u) : /\ u.plan[j].e # e /\ SameMountPoint(u.plan[j].e, e)
                                       /\ Unchanged(u.plan[j].e, u.des)
            THEN {"Result.stale-entry-kept/same-dir-and-type-as-kept-entry"}
            ELSE {"Result.stale-or-extra/other"})
 \cup (IF u.aborted \/ NewSynthOK(u) THEN {} ELSE {"Result.new-helper-unsupported"})
 \cup (IF HelperSupportKept(u) THEN {}
       ELSE IF \A x \in HelperDropped(u) :
                  \A j \in Keeps(u) : (~u.plan[j].e.s /\ u.plan[j].e.id = x.nb) => u.plan[j].e.g = "overname"
            THEN {"HelperSupportKept/supported-entry-is-overname"}
            ELSE {"HelperSupportKept"})
 \cup (IF KeptInPlace(u) THEN {} ELSE {"KeptInPlace"})
 \cup (IF UnmountOrder(u) THEN {} ELSE {"UnmountOrder"})
 \cup (IF UnmountOrderTrue(u, log) THEN {}
       ELSE IF UnmountOrder(u) THEN {"UnmountOrderTrue/profile-is-not-in-mount-order"}
            ELSE {"UnmountOrderTrue"})
 \cup {"UnmountOrder.entry-beneath-stays-kept" \o StrandCause(u, log, pr) : pr \in UnmountStrandsBad(u, log)}
 \cup (IF MountOrder(u) THEN {}
       ELSE IF \A pr \in MountOrderBad(u) : u.plan[pr[1]].e.k = "ensure-dir"
            THEN {"MountOrder/child-is-ensure-dir"}
            ELSE {"MountOrder"})

\* how often the antecedents of the clauses were exercised by the real executions (vacuity guard)
Cov(r, log) ==
    LET u == U(r) IN
    [ mustkeep   |-> Cardinality(MustKeep(u)),
      unmountpairs |-> Cardinality({<<i, j>> \in (DOMAIN log) \X (DOMAIN log) :
                          /\ i < j /\ Beneath(log[j], log[i])
                          /\ \E pi, pj \in Unmounts(u) : /\ Core(u.plan[pi].e) = Core(log[i])
                                                         /\ Core(u.plan[pj].e) = Core(log[j])}),
      mountpairs |-> Cardinality({<<i, j>> \in Mounts(u) \X Mounts(u) :
                          /\ i # j /\ u.plan[i].e.g = u.plan[j].e.g /\ Beneath(u.plan[j].e, u.plan[i].e)}),
      kepthelpers |-> Cardinality({e \in Range(u.cur) : Supports(e, u.des) /\ e \in Range(u.res)}),
      newsynth   |-> Cardinality(NewSynth(u)),
      rebuilt    |-> Cardinality(HelperDropped(u)),
      stale      |-> Cardinality({e \in Range(u.cur) : e.s /\ ~Supports(e, u.des)}),
      beneathchanged |-> Cardinality((Range(u.cur) \cap Range(u.des)) \ MustKeep(u)) ]

AddCov(a, b) == [k \in DOMAIN a |-> a[k] + b[k]]
ZeroCov == [mustkeep |-> 0, unmountpairs |-> 0, mountpairs |-> 0, kepthelpers |-> 0, newsynth |-> 0,
            rebuilt |-> 0, stale |-> 0, beneathchanged |-> 0]

Init == l = 1 /\ current = <<>> /\ truth = <<>> /\ viol = <<>> /\ stats = [n |-> 0, cov |-> ZeroCov]

Update ==
    /\ l <= Len(Trace)
    /\ Trace[l].ev = "Update"
    /\ LET r == Trace[l]
           \* a history starts (step 1) from the empty namespace, or from the one prepared by snap-confine
           log  == IF r.step = 1 THEN r.cur ELSE truth
           tags == Tags(r, log)
                   \cup (IF r.step > 1 /\ r.cur # current THEN {"HistoryChain"} ELSE {})
                   \cup (IF r.step = 1 /\ \E i \in DOMAIN r.cur : r.cur[i].g # "rootfs" THEN {"HistoryStart"} ELSE {})
       IN /\ current' = r.res
          /\ truth' = TruthApply(log, r.plan)
          /\ viol' = IF tags = {} \/ Len(viol) >= MaxViol THEN viol
                     ELSE Append(viol, [line |-> l, tags |-> tags])
          /\ stats' = [n |-> stats.n + (IF tags = {} THEN 0 ELSE 1), cov |-> AddCov(stats.cov, Cov(r, log))]
    /\ l' = l + 1

Finish ==
    /\ l = Len(Trace) + 1
    /\ JsonSerialize(IOEnv.VERIF_VIOL, [viol |-> viol, nbad |-> stats.n, cov |-> stats.cov, lines |-> Len(Trace)])
    /\ l' = l + 1
    /\ UNCHANGED <<current, truth, viol, stats>>

Next == Update \/ Finish
Spec == Init /\ [][Next]_vars

\* every line consumed and the report written
Accepted == TLCGet("stats").diameter - 2 = Len(Trace)
=============================================================================
