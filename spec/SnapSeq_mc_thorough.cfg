SPECIFICATION Spec
CONSTANTS
    MaxRev = 4
    MaxOps = 4
    InstallRevs <- Rev12
    AttrOpts <- AttrTwo
    RetainOpts <- Ret2s3
    CfgOpts <- Cfg1
    OnClassicOpts <- BoolFT
    BootOpts <- BootNone
    KernelOpts <- BoolF
    OpFaults = TRUE
INVARIANTS
    TypeOK
    C11_Consistent
    C10_Restored
    C10_BlockRestored
    C12_Retain
    C13_Revert
    C13_RevertPre
CONSTRAINT StateConstraint
CHECK_DEADLOCK FALSE
