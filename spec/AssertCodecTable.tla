------------------------ MODULE AssertCodecTable ------------------------
(* C20: generated documents with the reference encoder's text, and the edit table, as JSON. *)
EXTENDS AssertCodec, SequencesExt, Json, IOUtils

(* constant values (cfg files cannot hold tuples): quick and thorough generator alphabets *)
ScalarsQ == { <<"v">>, <<"">>, <<"a: b">>, <<" lead">>, <<"-dash">>, <<"l1", "l2">>, <<"l1", "", "l3">>, <<"t", "">>,
              <<"  - x", "k: v">> }
SmallQ == { <<"v">>, <<"l1", "l2">>, <<"">> }
ScalarsT == ScalarsQ \cup { <<"", "x">>, <<"#">>, <<"x", "    y", "">>, <<"k:">>, <<"-">>, <<"tr ">>, <<"u\"q'">>, <<"l1", "l2", "l3", "l4">> }
SmallT == SmallQ \cup { <<"-dash">>, <<"t", "">>, <<"a: b">> }
BodiesDef == { <<>>, <<"">>, <<"one line">>, <<"trail", "">>, <<"a", "", "b">>, <<"", "", "x">> }
RevisionsDef == { -1, 0, 3 }

DocTable == LET ds == SetToSeq(Docs)
            IN [i \in 1..Len(ds) |-> [doc |-> ds[i], text |-> DocText(ds[i]), roundtrip |-> DocRoundTrips(ds[i])]]
EditTable == LET cs == SetToSeq(DOMAIN EditExpect)
             IN [i \in 1..Len(cs) |-> [class |-> cs[i], expect |-> EditExpect[cs[i]]]]

ASSUME Unambiguous
ASSUME JsonSerialize(IOEnv.VERIF_OUT, [docs |-> DocTable, edits |-> EditTable,
                                       counts |-> [values |-> Cardinality(Values), solid |-> Cardinality(Solid),
                                                   docs |-> Cardinality(Docs)]])

VARIABLE x
Init == x = 0
Next == UNCHANGED x
=============================================================================
