\* C27 thorough: every desktop file of <= 4 line classes x instance key? x file-name variant
CONSTANTS
  MaxLen = 4
  ExcludedPairs = {}
INIT Init
NEXT Next
CHECK_DEADLOCK FALSE
INVARIANTS
  InvOnlyAllowlisted
  InvExecIsOwnWrapper
  InvIconInsideSnap
  InvTagged
