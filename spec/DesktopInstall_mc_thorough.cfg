\* C27 install step (thorough): one call installing <= 3 shipped files of <= 1 line
CONSTANTS
  MaxLen = 0
  ExcludedPairs = {}
  MaxFiles = 3
  MaxFileLen = 1
  FileFnames = {"other"}
INIT IInit
NEXT INext
CHECK_DEADLOCK FALSE
INVARIANTS
  InvPendingStable
  InvInstallIsFunctionOfFile
  InvInstalledOnlyAllowlisted
  InvInstalledExecIsOwnWrapper
  InvInstalledIconInsideSnap
  InvInstalledTagged
