\* EXPECTED TO FAIL (named deviation D5): conns/repository restored, entry faults; the counterexample is replayed on the real code
SPECIFICATION Spec
CONSTANTS
  MaxOps = 1
  SetupFaults = FALSE
  WorldNames = {"W2"}
INVARIANTS StrictFailureRestores
CHECK_DEADLOCK FALSE
