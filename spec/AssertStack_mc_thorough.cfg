SPECIFICATION Spec
CONSTANTS
  MaxDepth = 4
  MaxRev = 5
  MaxOps = 6
INVARIANTS LayersMonotone LookupIsHighest AcceptSound
CHECK_DEADLOCK FALSE
