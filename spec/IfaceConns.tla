------------------------------- MODULE IfaceConns -------------------------------
(***************************************************************************************************)
(* C22 -- interface connections are transactional; persisted state matches the repository.        *)
(*                                                                                                 *)
(* Transcription of overlord/ifacestate (handlers.go doConnect/undoConnect, doDisconnect/          *)
(* undoDisconnect, doSetupProfiles/undoSetupProfiles, doRemoveProfiles, doAutoConnect,             *)
(* doAutoDisconnect; helpers.go reloadConnections, removeStaleConnections; ifacestate.go connect,  *)
(* disconnectTasks, Forget) over a small embedded model of the task runner (do in dependency       *)
(* order, first error aborts the lane: Do->Hold, Done->Undo, undo in reverse dependency order).    *)
(*                                                                                                 *)
(* State:  conns     persisted "conns" (connId -> entry | absent)                                  *)
(*         repo      in-memory connections of the interfaces.Repository                            *)
(*         inrepo    snaps whose plugs/slots are in the repository                                 *)
(*         installed snaps with a snapstate entry                                                  *)
(*         profiles  snap -> the connection set the last successful backend Setup was generated    *)
(*                   for (has=FALSE: no profile / removed)                                         *)
(* One change runs at a time (the conflict checks of the public entry points serialise changes     *)
(* touching the same snaps; the world is 3 snaps that all touch each other).                       *)
(*                                                                                                 *)
(* Faults: a task fails on entry (at=0; hooks included) or -- SetupFaults -- the at-th security    *)
(* backend Setup call made by the task's do handler fails (at>=1).                                 *)
(*                                                                                                 *)
(* Named deviations (behaviour of the code that the spec models faithfully and that is excluded    *)
(* from the lenient invariants; the Strict* invariants include them and are expected to fail):     *)
(*  D1 undoConnect with delayed-setup-profiles (auto-connect at install) does not regenerate the   *)
(*     peer's profile -> peer profile stale after a failed install           (taintProf)           *)
(*  D2 doDisconnect: a failing Setup after repo.Disconnect leaves the repository disconnected      *)
(*     while conns still has the connection                                  (taintConns)          *)
(*  D3 doConnect: slot Setup done, plug Setup fails: repo rolled back, slot profile stale          *)
(*  D4 setup-profiles: a failing Setup (SetupMany continues) / partial effects (taintProf)         *)
(*  D5 undoDisconnect of a Forget of an inactive (undesired) connection whose plug and slot exist  *)
(*     re-connects it in the repository while restoring undesired=true       (taintConns)          *)
(***************************************************************************************************)
EXTENDS Naturals, Sequences, FiniteSets, TLC

CONSTANTS MaxOps,        \* number of changes per behaviour
          SetupFaults,   \* BOOLEAN: also fail the k-th backend Setup call inside a task
          WorldNames     \* subset of {"W0","W1","W2","W3"}: initial worlds

---------------------------------------------------------------------------------------------------
(* The world (mirrored by harness/overlay/ifacestate/zz_verif_ifaceconns_test.go) *)

Snaps == {"cons", "prod", "third"}
C1 == "cons:pa prod:sa"
C2 == "cons:pb prod:sb"
C3 == "third:pa prod:sa"
C4 == "cons:pb third:sb"
ConnIds == {C1, C2, C3, C4}

PlugSnap == (C1 :> "cons") @@ (C2 :> "cons") @@ (C3 :> "third") @@ (C4 :> "cons")
SlotSnap == (C1 :> "prod") @@ (C2 :> "prod") @@ (C3 :> "prod") @@ (C4 :> "third")
PlugName == (C1 :> "pa") @@ (C2 :> "pb") @@ (C3 :> "pa") @@ (C4 :> "pb")
SlotName == (C1 :> "sa") @@ (C2 :> "sb") @@ (C3 :> "sa") @@ (C4 :> "sb")
IfaceOf  == (C1 :> "verifa") @@ (C2 :> "verifb") @@ (C3 :> "verifa") @@ (C4 :> "verifb")
AutoIfaces == {"verifa"}          \* base declaration: allow-auto-connection

SnapHooks == ("cons"  :> {"prepare-plug-pa", "connect-plug-pa", "disconnect-plug-pa"}) @@
             ("prod"  :> {"prepare-slot-sa", "connect-slot-sa", "disconnect-slot-sa"}) @@
             ("third" :> {})

Ends(c) == {PlugSnap[c], SlotSnap[c]}
ConnsOf(r, s) == {c \in r : s \in Ends(c)}

Absent == [present |-> FALSE, iface |-> "", auto |-> FALSE, bygadget |-> FALSE,
           undesired |-> FALSE, gone |-> FALSE, attrs |-> "nil"]
Entry(c, auto, undesired) ==
          [present |-> TRUE, iface |-> IfaceOf[c], auto |-> auto, bygadget |-> FALSE,
           undesired |-> undesired, gone |-> FALSE, attrs |-> IF undesired THEN "nil" ELSE "set"]
Active(cv) == cv.present /\ ~cv.undesired /\ ~cv.gone
ActiveSet(cs) == {c \in ConnIds : Active(cs[c])}

AllAbsent == [c \in ConnIds |-> Absent]
World ==
  ("W0" :> [installed |-> {"cons", "prod", "third"}, conns |-> AllAbsent]) @@
  ("W1" :> [installed |-> {"cons", "prod"},
            conns |-> [AllAbsent EXCEPT ![C1] = Entry(C1, TRUE, FALSE), ![C2] = Entry(C2, FALSE, FALSE)]]) @@
  ("W2" :> [installed |-> {"cons", "prod", "third"},
            conns |-> [AllAbsent EXCEPT ![C1] = Entry(C1, TRUE, TRUE), ![C3] = Entry(C3, TRUE, FALSE),
                                        ![C4] = Entry(C4, FALSE, FALSE)]]) @@
  ("W3" :> [installed |-> {"prod"}, conns |-> AllAbsent])

---------------------------------------------------------------------------------------------------
(* Tasks *)

T(kind, c, s, hook, mode) == [kind |-> kind, c |-> c, s |-> s, hook |-> hook, mode |-> mode]
NoTask == T("", "", "", "", "")
NoFault == [has |-> FALSE, t |-> NoTask, at |-> 0]
NoOp == [name |-> "", c |-> "", s |-> ""]

SideSnap(side, c) == IF side = "plug" THEN PlugSnap[c] ELSE SlotSnap[c]
SideName(side, c) == IF side = "plug" THEN PlugName[c] ELSE SlotName[c]
HookName(k, side, c) == k \o "-" \o side \o "-" \o SideName(side, c)
OptHook(k, side, c, mode) ==
    IF HookName(k, side, c) \in SnapHooks[SideSnap(side, c)]
    THEN <<T("hook", c, SideSnap(side, c), HookName(k, side, c), mode)>> ELSE <<>>

ConnT(c, m) == T("connect", c, "", "", m)
DiscT(c, m) == T("disconnect", c, "", "", m)
ConnPre(c, m) == OptHook("prepare", "plug", c, "") \o OptHook("prepare", "slot", c, "") \o <<ConnT(c, m)>>
ConnPost(c)   == OptHook("connect", "slot", c, "") \o OptHook("connect", "plug", c, "")
HookMode(m)   == IF m = "autodisc" THEN "ignore" ELSE ""      \* HookSetup.IgnoreError = AutoDisconnect
DiscSeq(c, m) == OptHook("disconnect", "slot", c, HookMode(m)) \o OptHook("disconnect", "plug", c, HookMode(m))
                 \o <<DiscT(c, m)>>

Range(seq) == {seq[i] : i \in DOMAIN seq}
Idx(seq, t) == CHOOSE i \in DOMAIN seq : seq[i] = t
NewTask(w) == [st |-> "Do", waits |-> w, hasOld |-> FALSE, old |-> Absent]
\* a linear chain: each task waits for its predecessor (+ `all`), the first for `head` (+ `all`)
ChainFn(seq, head, all) ==
    [t \in Range(seq) |-> NewTask((IF Idx(seq, t) = 1 THEN head ELSE {seq[Idx(seq, t) - 1]}) \cup all)]
EmptyTasks == [t \in {} |-> NewTask({})]

SP(s, m)   == T("setup-profiles", "", s, "", m)
LinkT(s)   == T("link-snap", "", s, "", "")
ACT(s)     == T("auto-connect", "", s, "", "")
PostT(s)   == T("post", "", s, "", "")
ADT(s)     == T("auto-disconnect", "", s, "", "")
UnlinkT(s) == T("unlink-snap", "", s, "", "")
RmProfT(s) == T("remove-profiles", "", s, "", "")
DiscardT(s) == T("discard-snap", "", s, "", "")
\* a later task of the same change: the task sets returned by Connect/Disconnect/Forget are composed with
\* further tasks by their callers (the package's own undo tests append an "error-trigger" task); it waits for
\* the whole set, has no effect and no undo handler; a fault on its entry undoes every task of the set
TailT == T("tail", "", "", "", "")
WithTail(f) == f @@ (TailT :> NewTask(DOMAIN f))

VARIABLES installed, inrepo, conns, repo, profiles,
          phase,       \* "idle" | "run"
          tasks,       \* task -> [st, waits, hasOld, old]
          op, fault, fired,
          pre,         \* snapshot at Start: [conns, repo, installed]
          nops, lastFailed,
          taintConns, taintProf,   \* a named deviation happened (sticky)
          reloadSame   \* monitor: the last Restart rebuilt the same in-memory set

world == <<installed, inrepo, conns, repo, profiles>>
vars == <<installed, inrepo, conns, repo, profiles, phase, tasks, op, fault, fired, pre, nops, lastFailed,
          taintConns, taintProf, reloadSame>>

ProfOf(r, s) == [has |-> TRUE, conns |-> ConnsOf(r, s)]
NoProf == [has |-> FALSE, conns |-> {}]

InitWorld(w) ==
    /\ installed = World[w].installed
    /\ inrepo = World[w].installed
    /\ conns = World[w].conns
    /\ repo = {c \in ActiveSet(World[w].conns) : Ends(c) \subseteq World[w].installed}
    /\ profiles = [s \in Snaps |-> IF s \in World[w].installed
                                  THEN ProfOf({c \in ActiveSet(World[w].conns) : Ends(c) \subseteq World[w].installed}, s)
                                  ELSE NoProf]
InitRest ==
    /\ phase = "idle" /\ tasks = EmptyTasks /\ op = NoOp /\ fault = NoFault /\ fired = FALSE
    /\ pre = [conns |-> conns, repo |-> repo, installed |-> installed]
    /\ nops = 0 /\ lastFailed = FALSE /\ taintConns = FALSE /\ taintProf = FALSE /\ reloadSame = TRUE

Init == (\E w \in WorldNames : InitWorld(w)) /\ InitRest

---------------------------------------------------------------------------------------------------
(* Requests: what the public entry points accept, and the task sets they build *)

BothInstalled(c) == Ends(c) \subseteq installed

OpEnabled(o) ==
    CASE o.name = "connect"    -> BothInstalled(o.c) /\ ~Active(conns[o.c])        \* else ErrAlreadyConnected
      [] o.name = "disconnect" -> BothInstalled(o.c) /\ o.c \in repo               \* needs repo.Connection
      [] o.name = "forget"     -> BothInstalled(o.c) /\ conns[o.c].present
      [] o.name = "install"    -> o.s \notin installed
      [] o.name = "remove"     -> o.s \in installed
      [] OTHER -> FALSE

Ops == [name : {"connect", "disconnect", "forget"}, c : ConnIds, s : {""}]
       \cup [name : {"install", "remove"}, c : {""}, s : Snaps]

InitialTasks(o) ==
    CASE o.name = "connect"    -> WithTail(ChainFn(ConnPre(o.c, "manual") \o ConnPost(o.c), {}, {}))
      [] o.name = "disconnect" -> WithTail(ChainFn(DiscSeq(o.c, "manual"), {}, {}))
      [] o.name = "forget"     -> IF o.c \in repo THEN WithTail(ChainFn(DiscSeq(o.c, "forget"), {}, {}))
                                  ELSE WithTail(ChainFn(<<DiscT(o.c, "forget")>>, {}, {}))
      [] o.name = "install"    -> ChainFn(<<SP(o.s, "first"), LinkT(o.s), ACT(o.s), PostT(o.s)>>, {}, {})
      [] o.name = "remove"     -> ChainFn(<<ADT(o.s), UnlinkT(o.s), RmProfT(o.s), DiscardT(o.s)>>, {}, {})

\* auto-connect candidates of snap s (doAutoConnect): the interface auto-connects, the other end is in the
\* repository, and there is no entry at all for the connection (an undesired entry blocks it too)
AutoNew(s, inr, cs) == {c \in ConnIds : /\ s \in Ends(c) /\ IfaceOf[c] \in AutoIfaces
                                         /\ Ends(c) \subseteq inr /\ ~cs[c].present}

AutoConnectTasks(s, new) ==
    LET ac == ACT(s)
        spA == SP(s, "auto")
        pres == [c \in new |-> ChainFn(ConnPre(c, "auto"), {ac}, {ac})]
        posts == [c \in new |-> ChainFn(ConnPost(c), {ConnT(c, "auto"), spA}, {ac})]
        Merge(f, S) == [t \in UNION {DOMAIN f[c] : c \in S} |-> f[CHOOSE c \in S : t \in DOMAIN f[c]][t]]
    IN IF new = {} THEN EmptyTasks
       ELSE Merge(pres, new) @@ Merge(posts, new)
            @@ (spA :> NewTask({ac} \cup {ConnT(c, "auto") : c \in new}))

AutoDisconnectTasks(s, cs) ==
    LET ad == ADT(s)
        chains == [c \in cs |-> ChainFn(DiscSeq(c, "autodisc"), {ad}, {ad})]
    IN [t \in UNION {DOMAIN chains[c] : c \in cs} |-> chains[CHOOSE c \in cs : t \in DOMAIN chains[c]][t]]

\* tasks a change may ever have (fault points), computed at request time
PotentialTasks(o) ==
    DOMAIN InitialTasks(o) \cup
    (CASE o.name = "install" -> DOMAIN AutoConnectTasks(o.s, AutoNew(o.s, inrepo \cup {o.s}, conns))
       [] o.name = "remove"  -> DOMAIN AutoDisconnectTasks(o.s, ConnsOf(repo, o.s))
       [] OTHER -> {})

MaxAt(t) == IF ~SetupFaults THEN 0
            ELSE CASE t.kind \in {"connect", "disconnect"} -> 2
                   [] t.kind = "setup-profiles" -> 3
                   [] OTHER -> 0

FaultChoices(o) == {NoFault} \cup
    {[has |-> TRUE, t |-> t, at |-> k] : t \in PotentialTasks(o), k \in 0..2} \cup
    {[has |-> TRUE, t |-> t, at |-> 3] : t \in {u \in PotentialTasks(o) : u.kind = "setup-profiles"}}

Start(o, f) ==
    /\ phase = "idle" /\ nops < MaxOps
    /\ OpEnabled(o)
    /\ f \in FaultChoices(o) /\ (f.has => f.at <= MaxAt(f.t))
    /\ phase' = "run" /\ tasks' = InitialTasks(o) /\ op' = o /\ fault' = f /\ fired' = FALSE
    /\ pre' = [conns |-> conns, repo |-> repo, installed |-> installed]
    /\ nops' = nops + 1
    /\ UNCHANGED <<world, lastFailed, taintConns, taintProf, reloadSame>>

---------------------------------------------------------------------------------------------------
(* Effects of the handlers.  Each returns a record                                                 *)
(*   [ok, installed, inrepo, conns, repo, profiles, hasOld, old, inject, tc, tp]                   *)
(* ok=FALSE: the handler returned an error (the listed state is what it left behind).              *)

Res(ok, ins, inr, cs, r, pf, hasOld, old, inj, tc, tp) ==
    [ok |-> ok, installed |-> ins, inrepo |-> inr, conns |-> cs, repo |-> r, profiles |-> pf,
     hasOld |-> hasOld, old |-> old, inject |-> inj, tc |-> tc, tp |-> tp]
Same(ok) == Res(ok, installed, inrepo, conns, repo, profiles, FALSE, Absent, EmptyTasks, FALSE, FALSE)

\* successive Setup calls for the snaps of `order` (a sequence) against repository r; the k-th fails
\* (k=0: none).  stopAtError: return at the first error (loops in doConnect/doDisconnect) or go on
\* (interfaces.SetupMany fallback used by setup-profiles).
RECURSIVE SetupSeq(_, _, _, _, _, _)
SetupSeq(pf, order, r, k, i, stopAtError) ==
    IF i > Len(order) THEN pf
    ELSE IF i = k THEN (IF stopAtError THEN pf ELSE SetupSeq(pf, order, r, k, i + 1, stopAtError))
    ELSE SetupSeq([pf EXCEPT ![order[i]] = ProfOf(r, order[i])], order, r, k, i + 1, stopAtError)

\* the snaps of S in name order (sort.Strings)
SetSeq(S) == SelectSeq(<<"cons", "prod", "third">>, LAMBDA x : x \in S)

\* handlers.go doConnect
DoConnect(t, k) ==
    LET c == t.c
        r1 == repo \cup {c}
        manual == t.mode = "manual"
        order == <<SlotSnap[c], PlugSnap[c]>>            \* slot snap first, then plug snap
        keepOld == conns[c].present /\ conns[c].undesired \* "old-conn" only when previously undesired
        newEntry == Entry(c, t.mode = "auto", FALSE)
    IN IF ~(Ends(c) \subseteq installed /\ Ends(c) \subseteq inrepo) THEN Same(FALSE)
       ELSE IF manual /\ k \in {1, 2}
            \* Setup failed: the deferred repo.Disconnect rolls the repository back; profiles generated
            \* before the failure stay (D3 when k=2)
            THEN Res(FALSE, installed, inrepo, conns, repo, SetupSeq(profiles, order, r1, k, 1, TRUE),
                     FALSE, Absent, EmptyTasks, FALSE, k = 2)
       ELSE Res(TRUE, installed, inrepo, [conns EXCEPT ![c] = newEntry], r1,
                IF manual THEN SetupSeq(profiles, order, r1, 0, 1, TRUE) ELSE profiles,
                keepOld, IF keepOld THEN conns[c] ELSE Absent, EmptyTasks, FALSE, FALSE)

\* handlers.go undoConnect
UndoConnect(t) ==
    LET c == t.c
        r1 == repo \ {c}
        cs1 == [conns EXCEPT ![c] = IF tasks[t].hasOld THEN tasks[t].old ELSE Absent]
        stale == \E s \in Snaps : profiles[s].has /\ c \in profiles[s].conns
    IN IF t.mode = "manual"
       THEN Res(TRUE, installed, inrepo, cs1, r1, SetupSeq(profiles, <<SlotSnap[c], PlugSnap[c]>>, r1, 0, 1, TRUE),
                FALSE, Absent, EmptyTasks, FALSE, FALSE)
       ELSE \* delayed-setup-profiles: no Setup here (D1 if a profile was generated with the connection)
            Res(TRUE, installed, inrepo, cs1, r1, profiles, FALSE, Absent, EmptyTasks, FALSE, stale)

\* handlers.go doDisconnect
DoDisconnect(t, k) ==
    LET c == t.c
        r1 == repo \ {c}
        order == <<PlugSnap[c], SlotSnap[c]>>            \* plug snap first, then slot snap
        cv == conns[c]
        after == CASE t.mode = "forget" -> Absent
                   [] t.mode = "hotplug" -> [cv EXCEPT !.gone = TRUE]
                   [] cv.auto /\ t.mode # "autodisc" -> [cv EXCEPT !.undesired = TRUE, !.attrs = "nil"]
                   [] OTHER -> Absent
    IN IF ~(Ends(c) \subseteq installed) THEN Same(TRUE)                   \* "snap doesn't exist": skipped
       ELSE IF ~cv.present THEN Same(FALSE)                               \* internal error: not in state
       ELSE IF c \notin repo
            THEN IF t.mode = "forget"                                     \* not connected: just forget it
                 THEN Res(TRUE, installed, inrepo, [conns EXCEPT ![c] = Absent], repo, profiles, TRUE, cv,
                          EmptyTasks, FALSE, FALSE)
                 ELSE Same(FALSE)                                         \* "snapd changed, please retry"
       ELSE IF k \in {1, 2}
            \* D2: repository already disconnected, Setup fails, handler returns: conns untouched
            THEN Res(FALSE, installed, inrepo, conns, r1, SetupSeq(profiles, order, r1, k, 1, TRUE),
                     FALSE, Absent, EmptyTasks, TRUE, TRUE)
       ELSE Res(TRUE, installed, inrepo, [conns EXCEPT ![c] = after], r1,
                SetupSeq(profiles, order, r1, 0, 1, TRUE), TRUE, cv, EmptyTasks, FALSE, FALSE)

\* handlers.go undoDisconnect
UndoDisconnect(t) ==
    LET c == t.c
        r1 == repo \cup {c}
        cs1 == [conns EXCEPT ![c] = tasks[t].old]
    IN IF ~tasks[t].hasOld THEN Same(TRUE)
       ELSE IF t.mode = "forget" /\ ~(Ends(c) \subseteq inrepo)
            THEN Res(TRUE, installed, inrepo, cs1, repo, profiles, FALSE, Absent, EmptyTasks, FALSE, FALSE)
       \* D5: the connection is re-connected in the repository even when the saved entry was not active
       \* (Forget of an undesired connection whose plug and slot exist)
       ELSE Res(TRUE, installed, inrepo, cs1, r1,
                SetupSeq(profiles, <<SlotSnap[c], PlugSnap[c]>>, r1, 0, 1, TRUE), FALSE, Absent, EmptyTasks,
                ~Active(tasks[t].old), ~Active(tasks[t].old))

\* handlers.go setupProfilesForAppSet (doSetupProfiles, undoSetupProfiles of an installed snap, undo of
\* remove-profiles): disconnect the snap, re-add it, reload its connections from conns, set up security
\* of the snap (first) and of every affected snap (by name) -- SetupMany goes on after an error.
SetupProfilesFor(s, k) ==
    LET dropped == ConnsOf(repo, s)
        inr1 == inrepo \cup {s}
        mine == {c \in ConnIds : s \in Ends(c) /\ Active(conns[c])}
        back == {c \in mine : Ends(c) \subseteq inr1}
        \* connection whose other end is gone: auto (not by-gadget) entries are dropped from the state
        gone == {c \in mine \ back : conns[c].auto /\ ~conns[c].bygadget}
        cs1 == [c \in ConnIds |-> IF c \in gone THEN Absent ELSE conns[c]]
        r1 == (repo \ dropped) \cup back
        affected == (UNION {Ends(c) : c \in dropped \cup back}) \ {s}
        order == <<s>> \o SetSeq(affected \cap installed)
        pf1 == SetupSeq(profiles, order, r1, k, 1, FALSE)
        failed == k >= 1 /\ k <= Len(order)
    IN Res(~failed, installed, inr1, cs1, r1, pf1, FALSE, Absent, EmptyTasks, FALSE, failed)

\* handlers.go removeProfilesForSnap (doRemoveProfiles, undoSetupProfiles of a snap that is not installed)
RemoveProfilesFor(s) ==
    LET dropped == ConnsOf(repo, s)
        r1 == repo \ dropped
        affected == (UNION {Ends(c) : c \in dropped}) \ {s}
        pf1 == SetupSeq(profiles, SetSeq(affected \cap installed), r1, 0, 1, TRUE)
    IN Res(TRUE, installed, inrepo \ {s}, conns, r1, [pf1 EXCEPT ![s] = NoProf], FALSE, Absent, EmptyTasks,
           FALSE, FALSE)

DoEffect(t, k) ==
    CASE t.kind = "connect"         -> DoConnect(t, k)
      [] t.kind = "disconnect"      -> DoDisconnect(t, k)
      [] t.kind = "setup-profiles"  -> SetupProfilesFor(t.s, k)
      [] t.kind = "remove-profiles" -> RemoveProfilesFor(t.s)
      [] t.kind = "link-snap"       -> [Same(TRUE) EXCEPT !.installed = installed \cup {t.s}]
      [] t.kind = "discard-snap"    -> [Same(TRUE) EXCEPT !.installed = installed \ {t.s}]
      [] t.kind = "auto-connect"    -> [Same(TRUE) EXCEPT !.inject = AutoConnectTasks(t.s, AutoNew(t.s, inrepo, conns))]
      [] t.kind = "auto-disconnect" -> [Same(TRUE) EXCEPT !.inject = AutoDisconnectTasks(t.s, ConnsOf(repo, t.s))]
      [] OTHER -> Same(TRUE)        \* hooks, unlink-snap, post: nothing in the projected state

UndoEffect(t) ==
    CASE t.kind = "connect"         -> UndoConnect(t)
      [] t.kind = "disconnect"      -> UndoDisconnect(t)
      [] t.kind = "setup-profiles"  -> IF t.s \in installed THEN SetupProfilesFor(t.s, 0) ELSE RemoveProfilesFor(t.s)
      [] t.kind = "remove-profiles" -> SetupProfilesFor(t.s, 0)       \* undo handler is doSetupProfiles
      [] t.kind = "link-snap"       -> [Same(TRUE) EXCEPT !.installed = installed \ {t.s}]
      [] OTHER -> Same(TRUE)

HasUndo(t) == t.kind \notin {"auto-disconnect", "discard-snap", "tail"}

---------------------------------------------------------------------------------------------------
(* The runner *)

ReadySt == {"Done", "Undone", "Hold", "Error"}
CanDo(t) == t \in DOMAIN tasks /\ tasks[t].st = "Do" /\ \A w \in tasks[t].waits : tasks[w].st = "Done"
CanUndo(t) == /\ t \in DOMAIN tasks /\ tasks[t].st = "Undo"
              /\ \A u \in DOMAIN tasks : t \in tasks[u].waits => tasks[u].st \in ReadySt

Apply(e) ==
    /\ installed' = e.installed /\ inrepo' = e.inrepo /\ conns' = e.conns /\ repo' = e.repo
    /\ profiles' = e.profiles
    /\ taintConns' = (taintConns \/ e.tc) /\ taintProf' = (taintProf \/ e.tp)

\* inject: new tasks wait as built; the tasks that waited for t now also wait for every new task
WithInjected(t, tk, inj) ==
    [u \in DOMAIN tk |-> IF t \in tk[u].waits THEN [tk[u] EXCEPT !.waits = @ \cup DOMAIN inj] ELSE tk[u]] @@ inj

FaultHere(t) == fault.has /\ ~fired /\ fault.t = t
IgnoresError(t) == t.kind = "hook" /\ t.mode = "ignore"

\* the k to pass to the handler: 0 unless this task's Setup fault is pending
KOf(t) == IF FaultHere(t) /\ fault.at >= 1 THEN fault.at ELSE 0

\* successful do of t (also used for a task that was running while another one failed: AbortStatus)
DoOK(t) ==
    /\ phase = "run" /\ CanDo(t)
    /\ ~(FaultHere(t) /\ fault.at = 0 /\ ~IgnoresError(t))
    /\ LET e == DoEffect(t, KOf(t)) IN
         /\ e.ok
         /\ Apply(e)
         /\ tasks' = WithInjected(t, [tasks EXCEPT ![t] = [@ EXCEPT !.st = "Done", !.hasOld = e.hasOld, !.old = e.old]],
                                  e.inject)
    /\ fired' = (fired \/ (FaultHere(t) /\ fault.at = 0))    \* an ignored hook failure consumes the fault
    /\ UNCHANGED <<phase, op, fault, pre, nops, lastFailed, reloadSame>>

\* abort: Do->Hold, Done->Undo (tasks without undo handler stay Done), the failing task -> Error; a hook
\* (or any task running in parallel with a hook) that was already running finishes first: "Abort"
Aborted(t, tk, A) ==
    [u \in DOMAIN tk |->
        IF u = t THEN [tk[u] EXCEPT !.st = "Error"]
        ELSE IF tk[u].st = "Do" THEN [tk[u] EXCEPT !.st = IF u \in A THEN "Abort" ELSE "Hold"]
        ELSE IF tk[u].st = "Done" /\ HasUndo(u) THEN [tk[u] EXCEPT !.st = "Undo"]
        ELSE tk[u]]

MayRunWith(t) == {u \in DOMAIN tasks : u # t /\ CanDo(u) /\ (u.kind = "hook" \/ t.kind = "hook")}

DoFail(t) ==
    /\ phase = "run" /\ CanDo(t)
    /\ \/ /\ FaultHere(t) /\ fault.at = 0 /\ ~IgnoresError(t)
          /\ UNCHANGED <<world, taintConns, taintProf>>
          /\ \E A \in SUBSET MayRunWith(t) : tasks' = Aborted(t, tasks, A)
          /\ fired' = TRUE
       \/ /\ ~(FaultHere(t) /\ fault.at = 0)
          /\ LET e == DoEffect(t, KOf(t)) IN
               /\ ~e.ok
               /\ Apply(e)
               /\ \E A \in SUBSET MayRunWith(t) : tasks' = Aborted(t, tasks, A)
          /\ fired' = (fired \/ FaultHere(t))
    /\ UNCHANGED <<phase, op, fault, pre, nops, lastFailed, reloadSame>>

\* a task that was already running when the lane was aborted completes ("it was actually Done") -> Undo
AbortDone(t) ==
    /\ phase = "run" /\ t \in DOMAIN tasks /\ tasks[t].st = "Abort"
    /\ LET e == DoEffect(t, 0) IN
         /\ e.ok
         /\ Apply(e)
         /\ tasks' = [tasks EXCEPT ![t] = [@ EXCEPT !.st = IF HasUndo(t) THEN "Undo" ELSE "Done",
                                                    !.hasOld = e.hasOld, !.old = e.old]]
    /\ UNCHANGED <<phase, op, fault, fired, pre, nops, lastFailed, reloadSame>>

UndoTask(t) ==
    /\ phase = "run" /\ CanUndo(t)
    /\ LET e == UndoEffect(t) IN
         /\ Apply(e)
         /\ tasks' = [tasks EXCEPT ![t] = [@ EXCEPT !.st = "Undone"]]
    /\ UNCHANGED <<phase, op, fault, fired, pre, nops, lastFailed, reloadSame>>

Quiet == \A t \in DOMAIN tasks : tasks[t].st \in ReadySt

Settle ==
    /\ phase = "run" /\ Quiet
    /\ phase' = "idle"
    /\ lastFailed' = (\E t \in DOMAIN tasks : tasks[t].st = "Error")
    /\ tasks' = EmptyTasks /\ fired' = FALSE
    /\ UNCHANGED <<world, op, fault, pre, nops, taintConns, taintProf, reloadSame>>

\* a snapd restart between changes: StartUp = removeStaleConnections + reloadConnections("")
Restart ==
    /\ phase = "idle"
    /\ LET cs1 == [c \in ConnIds |-> IF Ends(c) \subseteq installed THEN conns[c] ELSE Absent]
           r1 == {c \in ActiveSet(cs1) : Ends(c) \subseteq installed}
       IN /\ conns' = cs1 /\ repo' = r1 /\ inrepo' = installed
          /\ reloadSame' = (r1 = repo)
          /\ pre' = [conns |-> cs1, repo |-> r1, installed |-> installed]
    /\ lastFailed' = FALSE          \* FailureRestores speaks about the state right after the failed change
    /\ UNCHANGED <<installed, profiles, phase, tasks, op, fault, fired, nops, taintConns, taintProf>>

StartAny ==
    /\ phase = "idle" /\ nops < MaxOps
    /\ ~taintConns                 \* do not go on once conns and repository disagree (D2)
    /\ \E o \in {x \in Ops : OpEnabled(x)} : \E f \in FaultChoices(o) : Start(o, f)
DoAny    == phase = "run" /\ \E t \in DOMAIN tasks : DoOK(t)
FailAny  == phase = "run" /\ \E t \in DOMAIN tasks : DoFail(t)
AbortAny == phase = "run" /\ \E t \in DOMAIN tasks : AbortDone(t)
UndoAny  == phase = "run" /\ \E t \in DOMAIN tasks : UndoTask(t)

Next == StartAny \/ DoAny \/ FailAny \/ AbortAny \/ UndoAny \/ Settle \/ Restart

Spec == Init /\ [][Next]_vars

---------------------------------------------------------------------------------------------------
(* Properties *)

Idle == phase = "idle"
ProfilesOK == \A s \in installed : profiles[s] = ProfOf(repo, s)
RestoredConns == conns = pre.conns /\ repo = pre.repo /\ installed = pre.installed

TypeOK ==
    /\ installed \subseteq Snaps /\ inrepo \subseteq Snaps /\ repo \subseteq ConnIds
    /\ \A c \in ConnIds : conns[c].present \in BOOLEAN
    /\ phase \in {"idle", "run"}

\* C22, first sentence (strict forms: exactly the statement)
StrictFailureRestores == (Idle /\ lastFailed) => RestoredConns
StrictFailureProfiles == (Idle /\ lastFailed) => ProfilesOK
\* C22, second sentence
StrictActiveMatch == Idle => ActiveSet(conns) = repo
StrictReloadMatch == reloadSame

\* lenient forms: the same, outside the named deviations
FailureRestores == taintConns \/ StrictFailureRestores
FailureProfiles == (taintConns \/ taintProf) \/ StrictFailureProfiles
ActiveMatch == taintConns \/ StrictActiveMatch
ReloadMatch == taintConns \/ StrictReloadMatch
\* (not in the statement) profiles match the repository after every settled change
ProfilesMatch == (taintConns \/ taintProf) \/ (Idle => ProfilesOK)
\* repository connections are always between snaps in the repository
RepoSane == \A c \in repo : Ends(c) \subseteq inrepo

=================================================================================
