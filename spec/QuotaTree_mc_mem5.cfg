\* thorough: memory only, 5 groups, depth 4 (two unlimited intermediate levels possible)
SPECIFICATION Spec
CONSTANTS
  MaxGroups = 5
  MaxDepth = 4
  MaxRoots = 1
  NCPU = 3
  MemVals = {1, 2, 3}
  ThrVals = {}
  CpuCounts = {}
  CpuPcts = {}
  Cores = {}
  OtherVals = {TRUE}
  Paths = {"direct", "merged"}
VIEW View
INVARIANTS TypeOK InvMem InvThr InvSet InvFitsOrNamed NoDev
CHECK_DEADLOCK FALSE
