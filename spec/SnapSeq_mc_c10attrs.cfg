SPECIFICATION Spec
CONSTANTS
    MaxRev = 3
    MaxOps = 3
    InstallRevs <- Rev1
    AttrOpts <- AttrTwo
    RetainOpts <- RetNone
    CfgOpts <- Cfg1
    OnClassicOpts <- BoolF
    BootOpts <- BootNone
    KernelOpts <- BoolF
    OpFaults = FALSE
INVARIANTS
    TypeOK
    C10_Restored
    C10_BlockRestored
CONSTRAINT StateConstraint
CHECK_DEADLOCK FALSE
