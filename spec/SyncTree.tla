------------------------------- MODULE SyncTree -------------------------------
(***************************************************************************)
(* C23, tree variant -- osutil.EnsureTreeState as the code does it, over a *)
(* two-level tree: the base directory "." and the sub-directories SubDirs. *)
(* Every directory (if it exists) maps Names to entry tokens of SyncDir.tla;*)
(* the inner osutil.EnsureDirStateGlobs calls are the relation Outcomes of *)
(* SyncDir.tla (every order of its two map iterations), so the two modules *)
(* share one definition.                                                   *)
(*                                                                         *)
(* The code: subdirs = existing directories + keys of content; pass 1 over *)
(* subdirs in ARBITRARY order (Go map): MkdirAll, inner sync, first error  *)
(* stops the loop; on error pass 2 erases the managed files of every       *)
(* existing directory; finally the directories recorded in maybeEmpty are  *)
(* removed if empty.  Named deviation CumulativeMaybeEmpty: a directory is *)
(* recorded when the CUMULATIVE removed list is non-empty, not when files  *)
(* were removed from that directory, so an empty directory that held no    *)
(* managed file may be removed depending on the iteration order.           *)
(* (Directories occupying managed names are excluded from this domain.)    *)
(***************************************************************************)
EXTENDS SyncDir

CONSTANTS SubDirs,       \* relative sub-directories; the base itself is "."
          TreeEntryTok   \* entry tokens used for managed names in the tree domain (no directories)

Base == "."
Dirs == SubDirs \cup {Base}
NoDir == [n \in Names |-> "nodir"]          \* the directory does not exist (a function, to stay comparable)
Fresh == [n \in Names |-> "none"]             \* a directory just created by MkdirAll
NoContent == <<>>                             \* the empty desired map

AfterMkdir(tree, d) == IF tree[d] = NoDir THEN Fresh ELSE tree[d]
DesOfDir(con, d) == IF d \in DOMAIN con THEN con[d] ELSE NoContent
Pairs(d, S) == {<<d, n>> : n \in S}

TStart(tree, con) ==
    [tree0 |-> tree, con0 |-> con, tree |-> tree, phase |-> "pass1",
     subdirs |-> {d \in Dirs : tree[d] # NoDir} \cup DOMAIN con,
     pend |-> {d \in Dirs : tree[d] # NoDir} \cup DOMAIN con,
     changed |-> {}, removed |-> {}, err |-> FALSE, maybe |-> {}]

\* one iteration of `for relPath := range subdirs` with inner outcome o
DoPass1(t, d, o) ==
    LET ch == t.changed \cup Pairs(d, o.changed)
        rm == t.removed \cup Pairs(d, o.removed)
        tr == [t.tree EXCEPT ![d] = o.dir]
    IN IF o.err
       THEN [t EXCEPT !.tree = tr, !.changed = {}, !.removed = rm, !.err = TRUE,
                      !.phase = "pass2", !.pend = t.subdirs]
       ELSE [t EXCEPT !.tree = tr, !.changed = ch, !.removed = rm, !.pend = @ \ {d},
                      !.maybe = IF rm # {} THEN @ \cup {d} ELSE @,
                      !.phase = IF t.pend \ {d} = {} THEN "cleanup" ELSE "pass1"]

\* erase pass: EnsureDirStateGlobs(path, globs, nil) in every directory that exists
DoPass2(t, d, o) ==
    LET rm == t.removed \cup Pairs(d, o.removed)
    IN [t EXCEPT !.tree = IF t.tree[d] = NoDir THEN @ ELSE [@ EXCEPT ![d] = o.dir],
                 !.removed = rm, !.pend = @ \ {d},
                 !.maybe = IF t.tree[d] # NoDir /\ rm # {} THEN @ \cup {d} ELSE @,
                 !.phase = IF t.pend \ {d} = {} THEN "cleanup" ELSE "pass2"]

\* removeEmptyDirs for every recorded directory (flat tree: independent of the order)
DoCleanup(t) ==
    [t EXCEPT !.phase = "done",
              !.tree = [d \in Dirs |-> IF d \in t.maybe /\ d # Base /\ t.tree[d] = Fresh THEN NoDir ELSE t.tree[d]]]

TSucc(t) ==
    CASE t.phase = "pass1" ->
            IF t.pend = {} THEN {DoCleanup(t)}       \* nothing to do at all
            ELSE UNION {{DoPass1(t, d, o) : o \in Outcomes(AfterMkdir(t.tree, d), DesOfDir(t.con0, d))} : d \in t.pend}
      [] t.phase = "pass2" ->
            UNION {{DoPass2(t, d, o) : o \in IF t.tree[d] = NoDir THEN {[dir |-> Fresh, changed |-> {}, removed |-> {}, err |-> FALSE]}
                                              ELSE Outcomes(t.tree[d], NoContent)} : d \in t.pend}
      [] t.phase = "cleanup" -> {DoCleanup(t)}
      [] OTHER -> {}

TOut(t) == [tree |-> t.tree, changed |-> t.changed, removed |-> t.removed, err |-> t.err]

RECURSIVE TClose(_)
TClose(S) == IF \A t \in S : t.phase = "done" THEN S
             ELSE TClose(UNION {IF t.phase = "done" THEN {t} ELSE TSucc(t) : t \in S})
TreeOutcomes(tree, con) == {TOut(t) : t \in TClose({TStart(tree, con)})}

---------------------------------------------------------------------------
(* The statement for the tree, on (input, outcome) only.  It speaks about  *)
(* files; whether an EMPTY directory survives is not demanded.             *)
Entry(tree, d, n) == IF tree[d] = NoDir THEN "none" ELSE tree[d][n]

TreeWriteFails(tree, con) == \E d \in DOMAIN con : WriteFails(AfterMkdir(tree, d), con[d])
Wanted(con, d, m) == d \in DOMAIN con /\ m \in DOMAIN con[d]

TreePostOK(tree, con, out) ==
    /\ \A d \in Dirs, u \in Unmanaged : Entry(out.tree, d, u) = Entry(tree, d, u)       \* unrelated files untouched
    /\ ~out.err =>
        /\ \A d \in Dirs, m \in Managed :
              IF Wanted(con, d, m) THEN out.tree[d] # NoDir /\ Holds(out.tree[d], m, con[d][m])
              ELSE Entry(out.tree, d, m) = "none"
        /\ out.changed = UNION {Pairs(d, ExpChanged(AfterMkdir(tree, d), con[d])) : d \in DOMAIN con}
        /\ out.removed = {<<d, m>> \in Dirs \X Managed : Entry(tree, d, m) # "none" /\ ~Wanted(con, d, m)}
    /\ TreeWriteFails(tree, con) =>
        /\ out.err
        /\ \A d \in Dirs, m \in Managed : Entry(out.tree, d, m) = "none"

\* not demanded, reported separately: an existing directory without any managed entry disappeared
UnrelatedDirRemoved(tree, con, out) ==
    \E d \in SubDirs : tree[d] # NoDir /\ out.tree[d] = NoDir /\ d \notin DOMAIN con
                       /\ \A m \in Managed : tree[d][m] = "none"

---------------------------------------------------------------------------
VARIABLE ts

DirStates == {f \in [Names -> EntryTok] : (\A m \in Managed : f[m] \in TreeEntryTok) /\ (\A u \in Unmanaged : f[u] \in UnmanagedTok)}
InitTrees == {tr \in [Dirs -> DirStates \cup {NoDir}] : tr[Base] # NoDir}
DirDes == {f \in UNION {[D -> DesTok] : D \in SUBSET Managed} : TRUE}
Contents2 == {c \in UNION {[D -> DirDes] : D \in SUBSET Dirs} :
                 Cardinality({<<d, n>> \in Dirs \X Managed : d \in DOMAIN c /\ n \in DOMAIN c[d] /\ c[d][n] \in BadTok}) <= MaxBad}

\* (s, the variable of SyncDir, is not used by this module's behaviours)
TInit == s = "unused" /\ \E tr \in InitTrees, c \in Contents2 : ts = TStart(tr, c)
TNext == ts' \in TSucc(ts) /\ UNCHANGED s
TSpec == TInit /\ [][TNext]_<<ts, s>>

TreePost == ts.phase = "done" => TreePostOK(ts.tree0, ts.con0, TOut(ts))
TreeNeverTouchUnmanaged == \A d \in Dirs, u \in Unmanaged : Entry(ts.tree, d, u) = Entry(ts.tree0, d, u)
\* vacuity monitors (must be violated)
NoTreeFailClosed == ~(ts.phase = "done" /\ ts.err /\ ts.removed # {})
NoUnrelatedDirRemoved == ~(ts.phase = "done" /\ UnrelatedDirRemoved(ts.tree0, ts.con0, TOut(ts)))
=============================================================================
