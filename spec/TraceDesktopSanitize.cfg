CONSTANTS
  MaxLen = 0
  ExcludedPairs = {}
INIT TInit
NEXT TNext
CHECK_DEADLOCK FALSE
