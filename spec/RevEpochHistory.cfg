\* C35 history dimension: every history of 1..VERIF_HISTLEN (IOEnv, default 2) decodes into one destination.
INIT HInit
NEXT HNext
CHECK_DEADLOCK FALSE
INVARIANT KeptIsDenoted
INVARIANT DstIsLastGood
INVARIANT KeptLaws
