\* thorough exhaustive config B: 3 snaps (a, b gate; c only held), 4 steps
CONSTANTS
  Snaps <- MCSnaps3
  Gaters <- MCGaters
  HoldSets <- MCHoldSets
  Ticks <- MCTicksQ
  SysDurs <- MCSysDurs
  ExplicitDurs <- MCNoDurs
  MaxSteps = 4
INIT Init
NEXT Next
CHECK_DEADLOCK FALSE
INVARIANTS TypeOK OtherBound GlobalBound UntilBound RefusedAtBound SystemSurvivesRefresh SystemLasts
