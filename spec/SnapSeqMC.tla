------------------------------ MODULE SnapSeqMC ------------------------------
(* Model-checking instances of SnapSeq: constant definitions for the cfg files *)
EXTENDS SnapSeq

Plain == [chan |-> "", dev |-> FALSE, jail |-> FALSE, ignv |-> FALSE, cohort |-> "", leave |-> FALSE]
Alt   == [chan |-> "latest/edge", dev |-> TRUE, jail |-> FALSE, ignv |-> TRUE, cohort |-> "c1", leave |-> FALSE]
Leave == [chan |-> "", dev |-> FALSE, jail |-> TRUE, ignv |-> FALSE, cohort |-> "", leave |-> TRUE]

AttrPlain == {Plain}
AttrTwo == {Plain, Alt}
AttrThree == {Plain, Alt, Leave}

RetNone == {}
Ret2 == {[t |-> "num", v |-> 2]}
Ret2s3 == {[t |-> "str", v |-> 2], [t |-> "num", v |-> 3], [t |-> "none", v |-> 0]}
Ret234 == {[t |-> "num", v |-> 2], [t |-> "str", v |-> 3], [t |-> "num", v |-> 4], [t |-> "none", v |-> 0]}

Cfg0 == {}
Cfg1 == {1}
Cfg12 == {1, 2}

BoolF == {FALSE}
BoolFT == {FALSE, TRUE}
BoolT == {TRUE}

BootNone == {}
Boot1 == {{1}, {}}
Boot1only == {{1}}
Boot2 == {{2}}
Boot12 == {{1}, {2}, {1, 2}, {}}

Rev12 == {1, 2}
Rev1 == {1}
Rev13 == {1, 3}

\* hide nothing: all variables matter (clock bounds the run)
==============================================================================
