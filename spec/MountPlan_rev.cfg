\* the reference planner with keeps recorded while walking the profile backwards (as update.go/change.go do):
\* EXPECTED to violate InvUnmountOrderTrue after three updates; props/c28.py replays the counterexample on the real code
SPECIFICATION Spec
CONSTANTS
  MaxUpdates = 3
  MaxEntries = 1
  KeepOrder = "reverse"
  Size = "quick"
  StartRootfs = FALSE
VIEW View
CHECK_DEADLOCK FALSE
INVARIANTS
  InvPlanCoversCurrent
  InvApplyMatches
  InvResult
  InvHelperSupportKept
  InvKeptInPlace
  InvUnmountOrder
  InvMountOrder
  InvUnmountStrandsNothing
  InvUnmountOrderTrue
