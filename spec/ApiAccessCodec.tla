-------------------------- MODULE ApiAccessCodec --------------------------
(***************************************************************************)
(* C26, part 2 -- the peer-credential encoding of daemon/ucrednet.go.      *)
(*                                                                         *)
(*   String   ucrednet.String():     "pid=P;uid=U;socket=S;"               *)
(*   Parse    ucrednetGetWithInterfacesImpl: anchored regexp               *)
(*            ^pid=DIGITS;uid=DIGITS;socket=NOSEMI;[iface=NOSEMI;]$        *)
(*            (DIGITS = one or more decimal digits, NOSEMI = any run of    *)
(*            characters other than a semicolon, possibly empty)           *)
(*            then ParseInt(pid, 32) / ParseUint(uid, 32); pid 0 and uid   *)
(*            2^32-1 are the "no process"/"nobody" sentinels => errNoID    *)
(*   Attach   ucrednetAttachInterface: add an interface name to the        *)
(*            optional trailing iface=a&b; field (once, order preserved);  *)
(*            on a string that does not match, blind append                *)
(*                                                                         *)
(* A remote address is modelled as a SHAPE plus field literals; the driver *)
(* instantiates it as a concrete string and runs the real functions.       *)
(* Numbers are kept as digit strings (2^32-1 does not fit a TLC integer);  *)
(* their meaning is given by the tables PidNum/UidNum below (the rule:     *)
(* decimal, leading zeros allowed, must fit int32 resp. uint32).           *)
(***************************************************************************)
EXTENDS Naturals, Sequences, FiniteSets, TLC

CONSTANTS MaxAttach      \* number of Attach steps explored

None == "none"     \* strconv refused the number
\* the result of Parse when there are no credentials (errNoID)
NoCreds == [ok |-> FALSE, pid |-> "", uid |-> "", sock |-> "", ifaces |-> <<>>]

\* literal -> canonical decimal, or None when strconv refuses it (overflow) -- only for literals the regexp lets through
PidNum == [l \in {"1", "100", "2147483647", "007", "0", "2147483648", "99999999999999999999"} |->
             CASE l = "007" -> "7" [] l \in {"2147483648", "99999999999999999999"} -> None [] OTHER -> l]
UidNum == [l \in {"0", "1000", "4294967294", "007", "4294967295", "4294967296"} |->
             CASE l = "007" -> "7" [] l = "4294967296" -> None [] OTHER -> l]
\* literals the regexp's (\d+) refuses
BadNum == {"", "-1", "1x", "+1"}
PidLits == DOMAIN PidNum \cup BadNum
UidLits == DOMAIN UidNum \cup BadNum
PidSentinel == "0"               \* ucrednetNoProcess
UidSentinel == "4294967295"      \* ucrednetNobody

GoodSocks == {"/run/snapd.socket", "/run/snapd-snap.socket", "", "/tmp/x y"}
BadSocks == {"a;b"}              \* a `;' inside the socket field breaks the framing
SockLits == GoodSocks \cup BadSocks

Ifaces == {"a", "b"}

Shapes == {"canon",        \* pid=P;uid=U;socket=S;
           "trailing",     \* canon followed by junk
           "leading",      \* junk followed by canon
           "newline",      \* canon followed by "\n"
           "noSocket",     \* pid=P;uid=U;
           "swapped",      \* uid=U;pid=P;socket=S;
           "upper",        \* PID=P;UID=U;SOCKET=S;
           "twoIface",     \* canon followed by iface=a;iface=b;
           "garbage",      \* 127.0.0.1:4242
           "empty"}        \* the empty string

\* an abstract remote address: the initial string (shape + literals), the iface field maintained by Attach on a
\* matching string, and what Attach blindly appended to a non-matching one
Addr(shape, pid, uid, sock) == [shape |-> shape, pid |-> pid, uid |-> uid, sock |-> sock,
                                hasIface |-> FALSE, ifaces |-> <<>>, blind |-> <<>>]

\* the regexp matches
Matches(r) == /\ r.shape = "canon"
              /\ r.pid \in DOMAIN PidNum /\ r.uid \in DOMAIN UidNum
              /\ r.sock \in GoodSocks
              /\ r.blind = <<>>

Parse(r) ==
  IF Matches(r) /\ PidNum[r.pid] \notin {None, PidSentinel} /\ UidNum[r.uid] \notin {None, UidSentinel}
  THEN [ok |-> TRUE, pid |-> PidNum[r.pid], uid |-> UidNum[r.uid], sock |-> r.sock, ifaces |-> r.ifaces]
  ELSE NoCreds

InSeq(x, s) == \E k \in 1..Len(s) : s[k] = x

Attach(r, i) ==
  IF Matches(r)
  THEN IF ~r.hasIface THEN [r EXCEPT !.hasIface = TRUE, !.ifaces = <<i>>]
       ELSE IF InSeq(i, r.ifaces) THEN r
       ELSE [r EXCEPT !.ifaces = Append(r.ifaces, i)]
  ELSE [r EXCEPT !.blind = Append(r.blind, i)]

\* credentials as a *ucrednet value (canonical numbers)
ValidCreds == { [pid |-> p, uid |-> u, sock |-> s] :
                  p \in {"1", "100", "2147483647"}, u \in {"0", "1000", "4294967294"}, s \in GoodSocks }
String(u) == Addr("canon", u.pid, u.uid, u.sock)

\* every literal combination in the canonical frame; the broken frames around otherwise perfectly valid fields
InitialAddrs == { Addr("canon", p, u, s) : p \in PidLits, u \in UidLits, s \in SockLits }
                \cup { Addr(sh, "100", u, s) : sh \in Shapes \ {"canon"}, u \in {"0", "1000"},
                                               s \in {"/run/snapd.socket", "/run/snapd-snap.socket"} }

-----------------------------------------------------------------------------
VARIABLES r0,    \* the address as the connection produced it
          r,     \* the address after the Attach steps so far
          h      \* history: interfaces attached, in order

vars == <<r0, r, h>>

Init == r0 \in InitialAddrs /\ r = r0 /\ h = <<>>
DoAttach(i) == Len(h) < MaxAttach /\ r' = Attach(r, i) /\ h' = Append(h, i) /\ UNCHANGED r0
Next == \E i \in Ifaces : DoAttach(i)
Spec == Init /\ [][Next]_vars

RECURSIVE Dedup(_)
Dedup(s) == IF s = <<>> THEN <<>>
            ELSE LET d == Dedup(SubSeq(s, 1, Len(s) - 1)) IN
                 IF InSeq(s[Len(s)], d) THEN d ELSE Append(d, s[Len(s)])

Creds(p) == [ok |-> p.ok, pid |-> p.pid, uid |-> p.uid, sock |-> p.sock]

\* the encoding round-trips exactly
InvRoundTrip == \A u \in ValidCreds :
  Parse(String(u)) = [ok |-> TRUE, pid |-> u.pid, uid |-> u.uid, sock |-> u.sock, ifaces |-> <<>>]
\* what does not parse at the start never starts to parse (missing / unparsable credentials stay that way)
InvNeverAuthorised == ~Parse(r0).ok => ~Parse(r).ok
\* attaching interfaces never changes who the peer is
InvCredsStable == Creds(Parse(r)) = Creds(Parse(r0))
\* the attached interfaces are exactly those asked for, once each, in order of first request
InvIfaces == Parse(r).ok => Parse(r).ifaces = Dedup(h)
\* everything with a sentinel, an overflowing number or a broken frame is "no credentials"
InvFailClosed == (r0.shape # "canon" \/ r0.pid \in BadNum \cup {"0", "2147483648", "99999999999999999999"}
                  \/ r0.uid \in BadNum \cup {"4294967295", "4294967296"} \/ r0.sock \in BadSocks) => Parse(r) = NoCreds
=============================================================================
