\* C08 waiter slice: all actions incl. WaitStart/WakeCheck/WaitTimeout
SPECIFICATION Spec
CONSTANTS
  Users <- MCUsers1
  Types <- MCTypes1
  Keys <- MCKeys
  RepeatAfters = {0, 2}
  Data = {"d"}
  Clients <- MCClients
  CfgChoices <- MCCfgDeep
  ClockValues = {1, 3, 5}
  MaxAdds = 3
  Bump = TRUE
  BroadcastRepeat = TRUE
  AddAtTimes = {}
  ClockRegress = FALSE
VIEW view
INVARIANTS
  TypeOK
  UniqueNotices
  ExactlyOnce
  InOrder
  NoPhantom
  Ownership
  PublicToAll
  RepeatAfterSuppression
  StrictTimes
  NoLostWakeup
PROPERTIES
  PollDrainsProp
  NoPhantomProp
  RepeatAfterProp
CHECK_DEADLOCK FALSE
