\* generator for T->I replay including options.Time additions (conformance only)
SPECIFICATION SpecPoll
CONSTANTS
  Users <- MCUsers
  Types <- MCTypes
  Keys <- MCKeys
  RepeatAfters = {0, 2, 5}
  Data = {"", "d1"}
  Clients <- MCClients
  CfgChoices <- MCCfgChoices
  ClockValues = {1, 3, 5, 7, 9}
  MaxAdds = 10
  Bump = TRUE
  BroadcastRepeat = TRUE
  AddAtTimes = {1, 2, 4, 6, 8, 12}
  ClockRegress = FALSE
INVARIANTS
  UniqueNotices
  Ownership
  RepeatAfterSuppression
CHECK_DEADLOCK FALSE
