---------------------------- MODULE RefreshTimer ----------------------------
(* C16, protocol layer: the state machine of autoRefresh.Ensure                *)
(* (overlord/snapstate/autorefresh.go) at the grain of one Ensure pass, which  *)
(* runs under the state lock.  Time is an integer (abstract ticks when model   *)
(* checking, seconds since 2018-01-01 when validating traces of the real code).*)
(*                                                                            *)
(* The timer itself is abstract here: WinOf(sched, lo, hi) is the set of       *)
(* windows [s,e] of timer `sched` with e >= lo and s <= hi.  The model-checking*)
(* instance substitutes small tables, the trace instance substitutes the       *)
(* concrete calendar semantics TimerWindows!TimerWindows.                      *)
(* timeutil.Next is constrained only by its contract (TimerWindows.tla):       *)
(* DelayAllowed below; the real function is checked against the same contract  *)
(* query by query (TimerQueries.tla).                                          *)
EXTENDS TimerWindows

CONSTANTS MaxP,          \* maximum postponement after the last refresh (95 days)
          Hour,          \* length of the fallback window (1 hour)
          Retry,         \* refreshRetryDelay (20 minutes)
          None,          \* "zero time" (an integer smaller than every instant, e.g. -1)
          NoSched,       \* "no timer remembered" (same type as the values of sched)
          WinOf(_, _, _)

VARIABLES now,           \* wall clock
          sched,         \* the configured refresh.timer (an identifier / AST)
          lastRefresh,   \* state "last-refresh" (None = never)
          holdUntil,     \* effective refresh.hold (None = not set)
          inFlight,      \* an auto-refresh change is not ready
          nextRefresh,   \* autoRefresh.nextRefresh (None = zero)
          lastSched,     \* autoRefresh.lastRefreshSchedule (NoSched = "")
          lastAttempt,   \* autoRefresh.lastRefreshAttempt (None = zero)
          ensured,       \* an Ensure pass has run at the current instant (ensure-loop granularity = 1 tick)
          mon            \* monitor: how nextRefresh was computed, and whether a launch broke the property

vars == <<now, sched, lastRefresh, holdUntil, inFlight, nextRefresh, lastSched, lastAttempt, ensured, mon>>
envvars == <<now, sched>>

Max2(a, b) == IF a >= b THEN a ELSE b

InSomeWindow(s, t) == \E w \in WinOf(s, t, t) : In(w, t)

\* contract of timeutil.Next(s, last, MaxP) evaluated at instant t: delay d is allowed iff it
\* leads into an eligible window that starts before the limit last+MaxP, or -- when no eligible
\* window starts before the limit -- exactly to the limit (0 when overdue).
DelayAllowed(s, last, t, d) ==
    LET fb   == Fallback(last, MaxP, Hour)
        elig == {w \in WinOf(s, t, fb.s) : w.e >= t /\ ~In(w, last)}
    IN \E c \in Choosable(elig, fb) : DelayOK(c, fb, t, d, d)

-----------------------------------------------------------------------------
\* base: the instant the postponement limit is counted from (None = nextRefresh unset or a first, immediate refresh)
\* imm:  nextRefresh was set to the then-current instant (delay 0)
Mon0 == [base |-> None, imm |-> FALSE, bad |-> FALSE]

Init(s0) ==
    /\ now = 0 /\ sched = s0
    /\ lastRefresh = None /\ holdUntil = None /\ inFlight = FALSE
    /\ nextRefresh = None /\ lastSched = NoSched /\ lastAttempt = None
    /\ ensured = FALSE
    /\ mon = Mon0

-----------------------------------------------------------------------------
(* The first part of Ensure, as state functions of the pre-state and of the two *)
(* delays returned by timeutil.Next (d1: regular computation, d2: after an      *)
(* expired hold).                                                               *)

Changed == nextRefresh # None /\ lastSched # sched          \* "Refresh timer changed."
NR0     == IF Changed THEN None ELSE nextRefresh
Compute == NR0 = None                                        \* "compute next refresh attempt time (if needed)"

NR1(d1)  == IF ~Compute THEN NR0 ELSE IF lastRefresh # None THEN now + d1 ELSE now
D1OK(d1) == IF Compute /\ lastRefresh # None THEN DelayAllowed(sched, lastRefresh, now, d1) ELSE d1 = 0

Held    == holdUntil # None /\ holdUntil > now
Expired == holdUntil # None /\ holdUntil <= now
Recompute(d1) == Expired /\ NR1(d1) < holdUntil              \* "next refresh is obsolete, compute the next one"
NR2(d1, d2)  == IF Recompute(d1) THEN now + d2 ELSE NR1(d1)
D2OK(d1, d2) == IF Recompute(d1) THEN DelayAllowed(sched, holdUntil, now, d2) ELSE d2 = 0
Hold1   == IF Expired THEN None ELSE holdUntil               \* clearRefreshHold
Due(d1, d2) == ~Held /\ NR2(d1, d2) <= now                   \* !nextRefresh.After(now)

\* bookkeeping of how the (new) nextRefresh came about
MonAfter(d1, d2) ==
    IF ~Held /\ Recompute(d1) THEN [mon EXCEPT !.base = holdUntil, !.imm = (d2 = 0)]
    ELSE IF Compute THEN [mon EXCEPT !.base = lastRefresh, !.imm = (d1 = 0 \/ lastRefresh = None)]
    ELSE mon

\* the instant of a launch is fine if it is the scheduled instant and that lies inside a window of
\* the timer or at/after the limit; a launch later than scheduled (because an earlier pass was
\* blocked by a hold, a change in flight, the retry delay or a network error) is a late launch and is
\* only required not to be early.  A first refresh (no last-refresh yet) is immediate.
LaunchFine(m, nr) ==
    \/ m.base = None
    \/ nr < now
    \/ nr = now /\ (InSomeWindow(sched, now) \/ now >= m.base + MaxP)

MonLaunch(m, nr) == [m EXCEPT !.bad = m.bad \/ ~LaunchFine(m, nr)]

Prelude(d1, d2) == D1OK(d1) /\ D2OK(d1, d2) /\ ensured' = TRUE /\ lastSched' = sched /\ UNCHANGED envvars

-----------------------------------------------------------------------------
(* Ensure, one disjunct per way through the code *)

\* "ensure nothing is in flight already": returns before computing anything
EnsureInFlight ==
    /\ inFlight
    /\ ensured' = TRUE /\ lastSched' = sched /\ UNCHANGED envvars
    /\ nextRefresh' = NR0
    /\ UNCHANGED <<lastRefresh, holdUntil, inFlight, lastAttempt, mon>>

\* refresh.hold in the future
EnsureHeld(d1) ==
    /\ ~inFlight /\ Held
    /\ Prelude(d1, 0)
    /\ nextRefresh' = NR1(d1)
    /\ mon' = MonAfter(d1, 0)
    /\ lastRefresh' = lastRefresh        \* (ensureLastRefreshAnchor may set it; see EnsureAnchor)
    /\ UNCHANGED <<holdUntil, inFlight, lastAttempt>>

\* the next refresh is in the future
EnsureWait(d1, d2) ==
    /\ ~inFlight /\ ~Held /\ ~Due(d1, d2)
    /\ Prelude(d1, d2)
    /\ nextRefresh' = NR2(d1, d2)
    /\ holdUntil' = Hold1
    /\ mon' = MonAfter(d1, d2)
    /\ UNCHANGED <<lastRefresh, inFlight, lastAttempt>>

\* due, but refresh.metered=hold on a metered connection and not yet pending for MaxP
EnsureMeteredSkip(d1, d2) ==
    /\ ~inFlight /\ Due(d1, d2)
    /\ lastRefresh # None /\ now - lastRefresh < MaxP
    /\ Prelude(d1, d2)
    /\ nextRefresh' = None
    /\ holdUntil' = Hold1
    /\ mon' = [MonAfter(d1, d2) EXCEPT !.base = None]
    /\ UNCHANGED <<lastRefresh, inFlight, lastAttempt>>

TooSoon == lastAttempt # None /\ lastAttempt + Retry > now

\* due, but the previous attempt was less than Retry ago: nothing happens, retried later
EnsureTooSoon(d1, d2) ==
    /\ ~inFlight /\ Due(d1, d2) /\ TooSoon
    /\ Prelude(d1, d2)
    /\ nextRefresh' = NR2(d1, d2)
    /\ holdUntil' = Hold1
    /\ mon' = MonAfter(d1, d2)
    /\ UNCHANGED <<lastRefresh, inFlight, lastAttempt>>

\* launchAutoRefresh contacts the store: the attempt proper.
\* out = "ok": last-refresh := now, nextRefresh reset (also for a non-persistent store error);
\*             an auto-refresh change may or may not be created
\* out = "neterr": persistent network error: nothing recorded, nextRefresh kept, retried after Retry
\* out = "held": a hold was set while the store was being contacted: aborted, nextRefresh reset
EnsureLaunch(d1, d2, out, chg, h) ==
    /\ ~inFlight /\ Due(d1, d2) /\ ~TooSoon
    /\ Prelude(d1, d2)
    /\ lastAttempt' = now
    /\ mon' = MonLaunch(MonAfter(d1, d2), NR2(d1, d2))
    /\ CASE out = "ok" ->
              /\ lastRefresh' = now /\ nextRefresh' = None /\ inFlight' = chg /\ holdUntil' = Hold1
         [] out = "neterr" ->
              /\ nextRefresh' = NR2(d1, d2) /\ holdUntil' = Hold1 /\ UNCHANGED <<lastRefresh, inFlight>>
         [] out = "held" ->
              /\ h > now /\ holdUntil' = h /\ nextRefresh' = None /\ UNCHANGED <<lastRefresh, inFlight>>

-----------------------------------------------------------------------------
(* Environment *)

Tick(dt) ==
    /\ ensured /\ dt > 0
    /\ now' = now + dt /\ ensured' = FALSE
    /\ UNCHANGED <<sched, lastRefresh, holdUntil, inFlight, nextRefresh, lastSched, lastAttempt, mon>>

ChangeDone ==
    /\ inFlight /\ inFlight' = FALSE
    /\ UNCHANGED <<now, sched, lastRefresh, holdUntil, nextRefresh, lastSched, lastAttempt, ensured, mon>>

\* an auto-refresh change created elsewhere (continued refresh after an app closed, restart with a persisted change)
ExternalInFlight ==
    /\ ~inFlight /\ inFlight' = TRUE
    /\ UNCHANGED <<now, sched, lastRefresh, holdUntil, nextRefresh, lastSched, lastAttempt, ensured, mon>>

SetHold(h) ==
    /\ holdUntil' = h
    /\ UNCHANGED <<now, sched, lastRefresh, inFlight, nextRefresh, lastSched, lastAttempt, ensured, mon>>

ScheduleChanged(s) ==
    /\ s # sched /\ sched' = s
    /\ UNCHANGED <<now, lastRefresh, holdUntil, inFlight, nextRefresh, lastSched, lastAttempt, ensured, mon>>

\* snapd restarts: the in-memory autoRefresh is rebuilt, the state survives
Restart ==
    /\ nextRefresh' = None /\ lastSched' = NoSched /\ lastAttempt' = None
    /\ mon' = [mon EXCEPT !.base = None, !.imm = FALSE]
    /\ UNCHANGED <<now, sched, lastRefresh, holdUntil, inFlight, ensured>>

\* last-refresh written by something else (a manual "snap refresh" of everything, ensureLastRefreshAnchor)
SetLastRefresh(t) ==
    /\ lastRefresh' = t
    /\ UNCHANGED <<now, sched, holdUntil, inFlight, nextRefresh, lastSched, lastAttempt, ensured, mon>>

-----------------------------------------------------------------------------
(* Properties *)

\* (while nextRefresh is set, lastSched is the timer it was computed for)
\* the scheduled instant lies inside a window of the timer, or is the limit (or "now" when overdue)
NextInWindowOrAtLimit ==
    (nextRefresh # None /\ mon.base # None) =>
        \/ InSomeWindow(lastSched, nextRefresh)
        \/ nextRefresh = mon.base + MaxP
        \/ mon.imm /\ nextRefresh > mon.base + MaxP

\* never scheduled past the limit other than inside a window that started by the limit
\* ("no chosen window starts later than that limit") or immediately when overdue
NoWindowPastLimit ==
    (nextRefresh # None /\ mon.base # None /\ nextRefresh > mon.base + MaxP /\ ~mon.imm) =>
        \E w \in WinOf(lastSched, nextRefresh, nextRefresh) : In(w, nextRefresh) /\ w.s <= mon.base + MaxP

\* a launch at its scheduled instant happens inside a window or at/after the limit (monitor)
LaunchInWindowOrAtLimit == ~mon.bad

\* a refresh is never attempted while held or while another one is in flight, and never early:
\* as an action property over the launch step
LaunchStep == lastAttempt' # lastAttempt /\ lastAttempt' # None
NoEarlyLaunch == [][LaunchStep => (~inFlight /\ ~Held /\ lastAttempt' = now
                                    /\ (nextRefresh # None /\ ~Changed => nextRefresh <= now))]_vars
=============================================================================
