----------------------------- MODULE ApiAccess -----------------------------
(***************************************************************************)
(* C26 -- REST API requests are served only to callers the endpoint's      *)
(* declared access level allows.                                           *)
(*                                                                         *)
(* Part 1: the decision made by daemon.Command.ServeHTTP + the access      *)
(* checkers of daemon/access.go, as a function of                          *)
(*   ac  the access level DECLARED for the endpoint and method             *)
(*       [kind, polkit (an action is configured), nif (#listed interfaces)]*)
(*   rq  the request: peer credentials as carried in RemoteAddr, socket,   *)
(*       uid, user authentication, polkit's answer, connection state of    *)
(*       the calling snap, daemon degraded?, write method?                 *)
(* The state machine: a request arrives (any ac, any rq), ServeHTTP        *)
(* decides it (Serve).  The invariants are the clauses of the property    *)
(* statement, evaluated on every decided state.                            *)
(*                                                                         *)
(* Part 2: the ucrednet codec (daemon/ucrednet.go): String, Parse          *)
(* (ucrednetGetWithInterfaces), AttachInterface over abstract remote       *)
(* addresses (a shape + field literals), see below.                        *)
(***************************************************************************)
EXTENDS Naturals, Sequences, FiniteSets, TLC

CONSTANTS Creds, Users, Conns     \* request dimensions that the quick config trims

AllCreds == {"valid",      \* String() of ucrednet{pid, uid, socket}
             "missing",    \* String() of a nil ucrednet = "pid=;uid=;socket=;"  (non-unix connection)
             "garbage",    \* "127.0.0.1:4242", ""
             "trailing",   \* valid encoding followed by junk
             "leading",    \* junk followed by a valid encoding
             "nopid",      \* pid=0   (ucrednetNoProcess)
             "nouid"}      \* uid=4294967295 (ucrednetNobody)
AllUsers == {"none", "valid", "garbage", "removed", "forged"}
AllConns == {"none",          \* no connection at all
             "activeListed",  \* calling snap plugs a listed interface, connection active
             "bothListed",    \* two active connections: both listed interfaces (nif=2) / same interface twice (nif=1)
             "activeOther",   \* active connection of an interface that is not listed
             "undesired",     \* listed interface, connection marked undesired
             "hotplugGone",   \* listed interface, connection marked hotplug-gone
             "otherSnap",     \* listed interface, active, but the plug belongs to another snap
             "slotSide",      \* listed interface, active, calling snap is on the SLOT side
             "notSnap",       \* the calling pid does not belong to a snap (cgroup lookup fails)
             "badRef"}        \* listed interface, active, malformed connection reference
ASSUME Creds \subseteq AllCreds /\ Users \subseteq AllUsers /\ Conns \subseteq AllConns

Sockets == {"snapd", "snap", "other"}
Uids == {"root", "user"}
PolkitAnswers == {"yes", "no", "dismissed", "error"}

AccessClasses ==
  { [kind |-> k, polkit |-> FALSE, nif |-> 0] : k \in {"open", "root", "snap"} }
  \cup { [kind |-> "authenticated", polkit |-> p, nif |-> 0] : p \in BOOLEAN }
  \cup { [kind |-> "ifaceOpen", polkit |-> FALSE, nif |-> n] : n \in {1, 2} }
  \cup { [kind |-> "ifaceAuth", polkit |-> p, nif |-> n] : p \in BOOLEAN, n \in {1, 2} }

Requests == [cred : Creds, socket : Sockets, uid : Uids, user : Users, polkit : PolkitAnswers,
             conn : Conns, degraded : BOOLEAN, write : BOOLEAN]

Outcomes == {"served", "forbidden", "unauthorized", "cancelled", "error500"}

-----------------------------------------------------------------------------
(* ucrednetGet(r.RemoteAddr): anything but a well-formed encoding with a    *)
(* real pid and uid yields errNoID, i.e. ucred = nil.                       *)
HasCreds(rq) == rq.cred = "valid"

\* requireSnapdSocket
RequireSnapd(rq) == HasCreds(rq) /\ rq.socket = "snapd"

\* checkPolkitActionImpl
PolkitOutcome(a) == CASE a = "yes" -> "served"
                      [] a = "dismissed" -> "cancelled"
                      [] OTHER -> "unauthorized"          \* "no", or an error talking to polkit

\* the tail shared by authenticatedAccess and interfaceAuthenticatedAccess
AuthTail(ac, rq) ==
  IF rq.user = "valid" THEN "served"
  ELSE IF rq.uid = "root" THEN "served"
  ELSE IF ac.polkit THEN PolkitOutcome(rq.polkit)
  ELSE "unauthorized"

\* requireInterfaceApiAccessImpl
IfaceGate(ac, rq) ==
  /\ HasCreds(rq)
  /\ \/ rq.socket = "snapd"
     \/ rq.socket = "snap" /\ rq.conn \in {"activeListed", "bothListed"}

CheckAccess(ac, rq) ==
  CASE ac.kind = "open"          -> IF RequireSnapd(rq) THEN "served" ELSE "forbidden"
    [] ac.kind = "authenticated" -> IF RequireSnapd(rq) THEN AuthTail(ac, rq) ELSE "forbidden"
    [] ac.kind = "root"          -> IF RequireSnapd(rq) /\ rq.uid = "root" THEN "served" ELSE "forbidden"
    [] ac.kind = "snap"          -> IF HasCreds(rq) /\ rq.socket = "snap" THEN "served" ELSE "forbidden"
    [] ac.kind = "ifaceOpen"     -> IF IfaceGate(ac, rq) THEN "served" ELSE "forbidden"
    [] ac.kind = "ifaceAuth"     -> IF IfaceGate(ac, rq) THEN AuthTail(ac, rq) ELSE "forbidden"

\* Command.ServeHTTP: degraded mode refuses every non-GET before looking at the caller
Decide(ac, rq) == IF rq.degraded /\ rq.write THEN "error500" ELSE CheckAccess(ac, rq)

\* is polkit asked? (it is asked last: only if access is not granted otherwise)
ConsultsPolkit(ac, rq) ==
  /\ ~(rq.degraded /\ rq.write)
  /\ ac.polkit
  /\ \/ ac.kind = "authenticated" /\ RequireSnapd(rq)
     \/ ac.kind = "ifaceAuth" /\ IfaceGate(ac, rq)
  /\ rq.user # "valid" /\ rq.uid # "root"

\* which of the listed interfaces (by index) the handler finds attached to RemoteAddr
Attached(ac, rq) ==
  IF ac.kind \in {"ifaceOpen", "ifaceAuth"} /\ HasCreds(rq) /\ rq.socket = "snap"
  THEN CASE rq.conn = "activeListed" -> {1}
         [] rq.conn = "bothListed" -> IF ac.nif = 2 THEN {1, 2} ELSE {1}
         [] OTHER -> {}
  ELSE {}

-----------------------------------------------------------------------------
(* The statement, clause by clause.                                         *)
Served(ac, rq) == Decide(ac, rq) = "served"

\* "A request whose peer credentials are missing or unparsable is never treated as authorized"
ClNoCreds(ac, rq) == Served(ac, rq) => rq.cred = "valid"
\* "requests arriving on the snap socket are served only for snapctl or for interface-gated endpoints when
\*  the calling snap has an active connection of a listed interface"
ClSnapSocket(ac, rq) ==
  (Served(ac, rq) /\ rq.socket = "snap") =>
     \/ ac.kind = "snap"
     \/ ac.kind \in {"ifaceOpen", "ifaceAuth"} /\ rq.conn \in {"activeListed", "bothListed"}
\* "root-only endpoints serve only uid 0"
ClRootOnly(ac, rq) == (Served(ac, rq) /\ ac.kind = "root") => rq.uid = "root"
\* "authenticated endpoints serve only root, a logged-in user or a polkit-authorized caller"
ClAuthenticated(ac, rq) ==
  (Served(ac, rq) /\ ac.kind \in {"authenticated", "ifaceAuth"}) =>
     \/ rq.uid = "root" \/ rq.user = "valid" \/ (ac.polkit /\ rq.polkit = "yes")
\* a socket that is neither snapd.socket nor snapd-snap.socket serves nothing (fail closed; design, not statement)
ClUnknownSocket(ac, rq) == Served(ac, rq) => rq.socket # "other"
\* polkit can only authorise when an action is configured and polkit said yes (design)
ClPolkitOnlyYes(ac, rq) ==
  (Served(ac, rq) /\ ac.kind \in {"authenticated", "ifaceAuth"} /\ rq.uid # "root" /\ rq.user # "valid") =>
     (ConsultsPolkit(ac, rq) /\ rq.polkit = "yes")

-----------------------------------------------------------------------------
VARIABLES ac, rq, out
vars == <<ac, rq, out>>

\* a request arrives at an endpoint whose declared level is ac ...
Init == ac \in AccessClasses /\ rq \in Requests /\ out = "pending"
\* ... and Command.ServeHTTP decides it (one atomic step: nothing else interleaves within a request)
Serve == out = "pending" /\ out' = Decide(ac, rq) /\ UNCHANGED <<ac, rq>>
Next == Serve
Spec == Init /\ [][Next]_vars

Done == out # "pending"
TypeOK == ac \in AccessClasses /\ rq \in Requests /\ out \in Outcomes \cup {"pending"}
InvDecided == Done => out = Decide(ac, rq)
InvNoCreds == Done => ClNoCreds(ac, rq)
InvSnapSocket == Done => ClSnapSocket(ac, rq)
InvRootOnly == Done => ClRootOnly(ac, rq)
InvAuthenticated == Done => ClAuthenticated(ac, rq)
InvUnknownSocket == Done => ClUnknownSocket(ac, rq)
InvPolkitOnlyYes == Done => ClPolkitOnlyYes(ac, rq)

=============================================================================
