\* expected to FAIL: with explicit durations the 48h bound depends on callers passing 0
CONSTANTS
  Snaps <- MCSnaps2
  Gaters <- MCGaters
  HoldSets <- MCHoldSetsQ
  Ticks <- MCTicksQ
  SysDurs <- MCSysDurs
  ExplicitDurs <- MCDurs
  MaxSteps = 4
INIT Init
NEXT Next
CHECK_DEADLOCK FALSE
INVARIANTS OtherBound
