SPECIFICATION TSpec
CONSTANTS
  PlainKeys = {"a", "b", "c"}
  SeqKeys = {"s", "t"}
  MaxSeq = 5
  MaxRev = 6
  PlainFmts = {0, 1, 2}
  SeqFmts = {0, 1, 2, 3}
  PredefRev = 1
INVARIANTS TypeOK Monotone MaxFormatSound
PROPERTIES TRevisionsOnlyGrow TRefusedChangeNothing
POSTCONDITION Accepted
CHECK_DEADLOCK FALSE
