\* EXPECTED TO FAIL (finding F2): a remove that fails at discard-snap (after clear-snap removed the data) leaves the snap inactive but with its aliases re-created by undoRemoveAliases; the next remove has no remove-aliases task and leaves them on the system
CONSTANTS
  Snaps <- MCSnaps
  Names <- MCNames2
  Apps <- MCApps
  AutoApps <- MCAuto1
  OpKinds <- MCKindsF2
  InstallFlags <- MCFlagsPlain
  FaultModes <- MCFaultsEntry
  InitInst <- MCOne
  RAAUX = FALSE
  LateRemoveFaults = TRUE
  MaxOps = 3
INIT Init
NEXT Next
CHECK_DEADLOCK FALSE
INVARIANTS SysMatchesState
