SPECIFICATION MCSpec
CONSTANTS
  TimeBound = 3
  MCMaxP = 2
  MCHour = 1
  MCRetry = 2
  MCScheds = {"A", "C"}
INVARIANTS
  NextInWindowOrAtLimit
  NoWindowPastLimit
  LaunchInWindowOrAtLimit
PROPERTIES
  NoEarlyLaunch
CHECK_DEADLOCK FALSE
