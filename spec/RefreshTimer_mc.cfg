SPECIFICATION MCSpec
CONSTANTS
  TimeBound = 4
  MCMaxP = 3
  MCHour = 1
  MCRetry = 2
INVARIANTS
  NextInWindowOrAtLimit
  NoWindowPastLimit
  LaunchInWindowOrAtLimit
PROPERTIES
  NoEarlyLaunch
CHECK_DEADLOCK FALSE
