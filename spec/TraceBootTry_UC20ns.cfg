CONSTANTS
  Variant = "UC20ns"
  KRevs = {1, 2, 3}
  BRevs = {1, 2, 3}
  MaxCK = 3
  MaxFaults = 0
  ExcuseKnown = TRUE
INIT TInit
NEXT TNext
INVARIANTS TypeOK OnlyGoodOrTried FallbackWorks GoodOnlyAfterMark NeverStuck InUseProtects
POSTCONDITION Accepted
CHECK_DEADLOCK FALSE
