--------------------------- MODULE AssertCodec ---------------------------
(* C20 -- assertions survive encoding; malformed input is rejected safely.

   (1) A generator grammar for assertion documents and a REFERENCE ENCODER for header values written
       from the wire grammar documented at asserts/asserts.go:Decode and implemented by
       asserts/headers.go:appendEntry / parseHeaders:

         NAME ": " SIMPLEVALUE                              single-line string
         NAME ":\n" (indent+4 spaces) LINE ("\n" ...)*      multi-line string
         NAME ":" ("\n" indent "  -" ENTRY)+                list
         NAME ":" ("\n" indent "  " KEY ":" ENTRY)+         map, keys sorted

       Header values are ASTs  [k, ls, xs, ps]:
         k = "s": string, ls = its lines (one line: single-line value)
         k = "l": list,   xs = element ASTs
         k = "m": map,    ps = <<key, AST>> pairs, keys strictly increasing
   (2) The table of EDIT CLASSES applied to valid encodings with the verdict the grammar fixes
       ("reject") or leaves open ("either": only the safety laws apply: no panic, no hang,
       accepted input re-encodes to itself).

   TLC evaluates the encoder over all generated documents, checks that the grammar is
   unambiguous on them (Unambiguous) and exports documents + expected text + edit table
   (module AssertCodecTable).  The binding signs every document with a real key, compares the
   real encoding with the reference text, decodes it back (Decode and stream Decoder) and
   compares all fields; edits run under a watchdog.  Evidence level: exploration. *)
EXTENDS Integers, Sequences, FiniteSets, TLC

CONSTANTS Scalars,      \* set of line sequences (strings as their lines)
          SmallScalars, \* subset used where two values are combined
          Bodies,       \* set of line sequences; <<>> = no body
          Revisions     \* set of revisions, -1 = header absent

S(ls) == [k |-> "s", ls |-> ls, xs |-> <<>>, ps |-> <<>>]
L(xs) == [k |-> "l", ls |-> <<>>, xs |-> xs, ps |-> <<>>]
M(ps) == [k |-> "m", ls |-> <<>>, xs |-> <<>>, ps |-> ps]

Sc  == {S(ls) : ls \in Scalars}
Sc2 == {S(ls) : ls \in SmallScalars}
C1 == {L(<<>>), M(<<>>)}
      \cup {L(<<a>>) : a \in Sc} \cup {L(<<a, b>>) : a \in Sc2, b \in Sc2}
      \cup {M(<<<<"k", a>>>>) : a \in Sc} \cup {M(<<<<"k", a>>, <<"z9", b>>>>) : a \in Sc2, b \in Sc2}
V1 == Sc \cup C1
C1s == {L(<<>>), M(<<>>)} \cup {L(<<a>>) : a \in Sc2} \cup {M(<<<<"k", a>>>>) : a \in Sc2}
C2 == {L(<<x>>) : x \in C1} \cup {M(<<<<"k", x>>>>) : x \in C1}
      \cup {L(<<x, y>>) : x \in C1s \cup Sc2, y \in C1s}
      \cup {M(<<<<"k", x>>, <<"z9", y>>>>) : x \in C1s, y \in C1s \cup Sc2}
Values == V1 \cup C2

----------------------------------------------------------------------------
RECURSIVE Sp(_), JoinLines(_, _), Enc(_, _, _), EncList(_, _, _), EncMap(_, _, _), HasEmpty(_), AnyEmpty(_), AnyEmptyP(_)
Sp(n) == IF n = 0 THEN "" ELSE " " \o Sp(n - 1)

(* lines joined by "\n", each prefixed *)
JoinLines(ls, pfx) == IF Len(ls) = 1 THEN pfx \o ls[1]
                      ELSE pfx \o ls[1] \o "\n" \o JoinLines(Tail(ls), pfx)

(* the text appended for one entry, starting with "\n" (empty collections are omitted) *)
Enc(intro, v, ind) ==
    CASE v.k = "s" -> IF Len(v.ls) = 1 THEN "\n" \o intro \o " " \o v.ls[1]
                      ELSE "\n" \o intro \o "\n" \o JoinLines(v.ls, Sp(ind + 4))
      [] v.k = "l" -> IF v.xs = <<>> THEN "" ELSE "\n" \o intro \o EncList(v.xs, ind, 1)
      [] v.k = "m" -> IF v.ps = <<>> THEN "" ELSE "\n" \o intro \o EncMap(v.ps, ind, 1)
EncList(xs, ind, i) == IF i > Len(xs) THEN ""
                       ELSE Enc(Sp(ind) \o "  -", xs[i], ind + 2) \o EncList(xs, ind, i + 1)
EncMap(ps, ind, i) == IF i > Len(ps) THEN ""
                      ELSE Enc(Sp(ind + 2) \o ps[i][1] \o ":", ps[i][2], ind + 2) \o EncMap(ps, ind, i + 1)

HeaderText(name, v) == Enc(name \o ":", v, 0)

(* does the value contain an empty list/map anywhere (incl. itself)?  Those are omitted by the
   encoder, so the decoded headers cannot be identical; they are kept in the generator as a
   separate class whose round-trip the grammar cannot promise. *)
AnyEmpty(xs) == \E i \in 1..Len(xs) : HasEmpty(xs[i])
AnyEmptyP(ps) == \E i \in 1..Len(ps) : HasEmpty(ps[i][2])
HasEmpty(v) == CASE v.k = "s" -> FALSE
                 [] v.k = "l" -> v.xs = <<>> \/ AnyEmpty(v.xs)
                 [] v.k = "m" -> v.ps = <<>> \/ AnyEmptyP(v.ps)

Solid == {v \in Values : ~HasEmpty(v)}

(* the grammar is unambiguous on the generated values: different values, different text *)
Unambiguous == Cardinality({HeaderText("aaa", v) : v \in Solid}) = Cardinality(Solid)

----------------------------------------------------------------------------
(* documents: test-only assertions with primary-key "pk", extra headers, body, revision *)
Doc(hs, body, rev) == [hs |-> hs, body |-> body, rev |-> rev]
DefaultBody == CHOOSE b \in Bodies : TRUE
Docs == {Doc(<<<<"aaa", v>>>>, b, -1) : v \in Values, b \in {DefaultBody, <<>>}}
        \cup {Doc(<<<<"aaa", v>>, <<"zzz", w>>>>, <<>>, 2) : v \in C1s \cup Sc2, w \in C1s \cup Sc2}
        \cup {Doc(<<<<"aaa", S(<<"v">>)>>>>, b, r) : b \in Bodies, r \in Revisions}
        \cup {Doc(<<>>, b, r) : b \in Bodies, r \in Revisions}

RECURSIVE DocHeaders(_, _)
DocHeaders(hs, i) == IF i > Len(hs) THEN "" ELSE HeaderText(hs[i][1], hs[i][2]) \o DocHeaders(hs, i + 1)
RevText(r) == IF r > 0 THEN "\nrevision: " \o ToString(r) ELSE ""
(* the header section of the signed content, between the fixed meta headers and body-length/sign-key *)
DocText(d) == "type: test-only\nauthority-id: auth" \o RevText(d.rev) \o "\nprimary-key: pk" \o DocHeaders(d.hs, 1)
DocRoundTrips(d) == \A i \in 1..Len(d.hs) : ~HasEmpty(d.hs[i][2])

----------------------------------------------------------------------------
(* edit classes on a valid encoding and what the grammar says about the result.
   "body-length-minus" applies only to bodies that do not end in a newline: the stream grammar takes the
   body by length, so `length - 1` with a body ending in LF is another well-formed stream document
   (shorter body, signature preceded by a newline) although Decode (split at the last blank line) rejects it. *)
EditExpect ==
    [c \in {"trunc-headers", "trunc-sep", "trunc-body", "body-length-plus", "body-length-minus",
            "body-length-negative", "body-length-huge", "body-length-nonnumeric", "dup-header", "missing-sep",
            "bad-indent", "bad-header-name", "no-space-after-colon", "crlf", "non-utf8-header", "non-utf8-body",
            "empty-input", "unknown-type", "missing-type", "missing-authority", "missing-primary-key",
            "revision-negative", "format-nonnumeric", "empty-signature", "tab-indent"} |-> "reject"]
    @@ [c \in {"trunc-sig", "prefix-bytes", "suffix-bytes", "infix-bytes"} |-> "either"]

(* stream decoder limits: anything above a limit must be rejected (the converse is not demanded) *)
LimitExpect(hdrLen, bodyLen, sigLen, maxH, maxB, maxS) ==
    IF hdrLen > maxH \/ bodyLen > maxB \/ sigLen > maxS THEN "reject" ELSE "either"
=============================================================================
