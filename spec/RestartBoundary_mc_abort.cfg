\* E03 thorough: one user abort (Change.Abort) anywhere; chain, fork and "2 waits for 1, 3 independent" graphs;
\* types system and system-now. The known Change.Abort panic (C03) is reachable here: panicked states are terminal.
SPECIFICATION MCRSpec
CONSTANTS
  N = 3
  NC = 1
  MaxFail = 1
  MaxRetry = 0
  MaxWaitRes = 0
  MaxTime = 1
  MaxRestart = 1
  MaxAbort = 1
  MaxBoot = 2
  MaxCalls = 2
  BoundaryChoices <- BoundQuick
  ClassicChoices <- BoolBoth
  TypeChoices <- TypesSysNow
  DagChoices <- ChainForkSide
  BootAnywhere = FALSE
VIEW RView
INVARIANTS TypeOK RTypeOK I_E03a I_E03b I_E03c I_E03d I_E03e PanicOnlyByAbort
CHECK_DEADLOCK FALSE
