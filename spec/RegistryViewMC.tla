--------------------------- MODULE RegistryViewMC ---------------------------
(* Model-checking instances of RegistryView: rule shapes, views and request menus *)
EXTENDS RegistryView, Randomization

K == "{k}"
R(req, stor, acc) == [req |-> req, stor |-> stor, acc |-> acc, content |-> <<>>]
RN(req, stor, acc, content) == [req |-> req, stor |-> stor, acc |-> acc, content |-> content]
Acc == {"read-write", "read", "write"}

\* the rule shapes (each with every access): literal, placeholder, whole-map, nested (content), alias, deeper storage
ShA(a) == R(<<"a">>, <<"n">>, a)
ShB(a) == R(<<"b">>, <<"s">>, a)
ShCk(a) == R(<<"c", K>>, <<"m", K>>, a)
ShC(a) == R(<<"c">>, <<"m">>, a)
ShD(a, b) == RN(<<"d">>, <<"o">>, a, <<R(<<"p">>, <<"p">>, b)>>)     \* nested: d -> o, d.p -> o.p
ShDq(a) == R(<<"d", "q">>, <<"o", "q">>, a)
ShE(a) == R(<<"e">>, <<"w">>, a)
ShEk(a) == R(<<"e", K>>, <<"w", K>>, a)
ShF(a) == R(<<"f">>, <<"n">>, a)                                       \* second request name for storage n
ShH(a) == R(<<"h">>, <<"o", "p">>, a)                                  \* top-level request, nested storage
\* rules SHARING the placeholder name {k} at different depths: {k}.z binds k from the FIRST request part (and is
\* then skipped when "z" does not match or the access is wrong), e.x.{k} has {k} beyond a request "e" / "e.x"
ShKz(a) == R(<<K, "z">>, <<"v", K, "z">>, a)
ShExk(a) == R(<<"e", "x", K>>, <<"w", "x", K>>, a)

Shapes1 == {ShA(a) : a \in Acc} \cup {ShB(a) : a \in Acc} \cup {ShCk(a) : a \in Acc} \cup {ShC(a) : a \in Acc}
           \cup {ShD(a, b) : a \in Acc, b \in Acc} \cup {ShDq(a) : a \in Acc} \cup {ShE(a) : a \in Acc}
           \cup {ShEk(a) : a \in Acc} \cup {ShF(a) : a \in Acc} \cup {ShH(a) : a \in Acc}
           \cup {ShKz(a) : a \in Acc} \cup {ShExk(a) : a \in Acc}

\* registry.New rejects a view with two readable rules for the same request
ReadReqs(v) == LET f == Flatten(v) IN {f[i].req : i \in {j \in 1..Len(f) : Readable(f[j])}}
NReadable(v) == LET f == Flatten(v) IN Cardinality({j \in 1..Len(f) : Readable(f[j])})
ValidView(v) == Cardinality(ReadReqs(v)) = NReadable(v)

\* a curated list for the quick tier: every shape, every access, the interesting overlaps
ViewsQuick == {
    <<ShA("read-write"), ShF("read"), ShB("write")>>,
    <<ShA("read"), ShF("write"), ShH("read-write")>>,
    <<ShCk("read-write"), ShC("read")>>,
    <<ShC("read-write"), ShCk("write")>>,
    <<ShD("read-write", "read-write"), ShDq("read-write")>>,
    <<ShD("read", "write"), ShDq("read-write")>>,
    <<ShD("write", "read"), ShH("read-write")>>,
    <<ShE("read-write"), ShEk("read-write")>>,
    <<ShEk("read-write"), ShE("write"), ShA("read-write")>>,
    <<ShE("read"), ShEk("write"), ShB("read-write")>>,
    \* an earlier rule binds {k} and is skipped (wrong access / later literal differs); a later rule has {k}
    \* beyond the end of the request: its storage path must keep {k} unbound
    <<ShKz("read"), ShEk("read-write")>>,
    <<ShKz("read-write"), ShExk("read-write"), ShE("read-write")>> }
\* the directed view x request table (RegistryViewTable) additionally uses
ViewsTable == ViewsQuick \cup { <<ShKz("write"), ShEk("read-write"), ShExk("read")>>,
                                <<ShCk("read"), ShKz("read-write"), ShEk("write")>> }

V1 == Lf("1")
V2 == Lf("2")
VS == Lf("s")
VT == Lf("t")
M(k, v) == Mp(k :> v)
M2(k1, v1, k2, v2) == Mp((k1 :> v1) @@ (k2 :> v2))

SetAll == { <<<<"a">>, V1>>, <<<<"a">>, VS>>, <<<<"a">>, M("x", V1)>>,
            <<<<"b">>, VS>>, <<<<"b">>, V1>>,
            <<<<"c">>, M("x", V1)>>, <<<<"c">>, M2("x", V1, "y", V2)>>, <<<<"c">>, M("x", VS)>>, <<<<"c">>, V1>>,
            <<<<"c">>, EmptyMap>>, <<<<"c">>, M("x", NullV)>>,
            <<<<"c", "x">>, V1>>, <<<<"c", "y">>, V2>>, <<<<"c", "x">>, VS>>,
            <<<<"d">>, M("p", V1)>>, <<<<"d">>, M2("p", V1, "q", VS)>>, <<<<"d">>, M("q", VS)>>, <<<<"d">>, V1>>,
            <<<<"d">>, M("p", VS)>>, <<<<"d">>, M2("p", V2, "z", V1)>>,
            <<<<"d", "p">>, V2>>, <<<<"d", "q">>, VT>>, <<<<"d", "q">>, V1>>,
            <<<<"e">>, V1>>, <<<<"e">>, M("x", V1)>>, <<<<"e">>, M2("x", VS, "y", M("z", V1))>>,
            <<<<"e", "x">>, VS>>, <<<<"e", "y">>, M("z", V2)>>,
            <<<<"f">>, V2>>, <<<<"h">>, V1>>, <<<<"h">>, VS>>, <<<<"z">>, V1>>,
            <<<<"e", "x">>, M("y", V1)>>, <<<<"e", "x", "y">>, V2>>, <<<<"e">>, M("z", V2)>>, <<<<"e", "z">>, V1>> }
SetQuick == { <<<<"a">>, V1>>, <<<<"a">>, VS>>, <<<<"b">>, VS>>,
              <<<<"c">>, M2("x", V1, "y", V2)>>, <<<<"c">>, M("x", VS)>>, <<<<"c", "x">>, V2>>,
              <<<<"d">>, M2("p", V1, "q", VS)>>, <<<<"d">>, M("q", VS)>>, <<<<"d", "p">>, V2>>, <<<<"d", "q">>, VT>>,
              <<<<"e">>, V1>>, <<<<"e">>, M("x", V1)>>, <<<<"e", "y">>, VS>>,
              <<<<"f">>, V2>>, <<<<"h">>, V1>>, <<<<"e", "x">>, M("y", V1)>> }
UnsetAll == { <<"e", "x", "y">>, <<"e", "z">>, <<"a">>, <<"b">>, <<"c">>, <<"c", "x">>, <<"d">>, <<"d", "p">>, <<"d", "q">>, <<"e">>, <<"e", "x">>,
              <<"f">>, <<"h">>, <<"z">> }
UnsetQuick == { <<"a">>, <<"c">>, <<"c", "x">>, <<"d">>, <<"d", "p">>, <<"e">>, <<"e", "x">> }
GetAll == { <<"e", "x", "y">>, <<"e", "z">>, <<>>, <<"a">>, <<"b">>, <<"c">>, <<"c", "x">>, <<"c", "y">>, <<"d">>, <<"d", "p">>, <<"d", "q">>,
            <<"e">>, <<"e", "x">>, <<"e", "y">>, <<"f">>, <<"h">>, <<"z">> }
GetQuick == { <<>>, <<"d">>, <<"e">> }

SKeys == {"n", "s", "m", "o", "w", "v"}
SSub == {"x", "y", "p", "q", "e"}
StorPaths == {<<a>> : a \in SKeys} \cup {<<a, b>> : a \in SKeys, b \in SSub}

\* simulation only: same actions, each step drawing a few random menu entries
SimNext ==
    \/ \E t \in Txns : Begin(t) \/ Commit(t)
    \/ \E t \in Txns, e \in RandomSubset(5, SetMenu) : Set(t, e[1], e[2])
    \/ \E t \in Txns, r \in RandomSubset(2, UnsetMenu) : Unset(t, r)
    \/ \E t \in Txns, r \in RandomSubset(2, GetMenu) : Get(t, r)
SimInit ==
    /\ viewdef \in Views
    /\ view = Flatten(viewdef)
    /\ stored = EmptyMap
    /\ open = [t \in Txns |-> FALSE]
    /\ pristine = [t \in Txns |-> EmptyMap]
    /\ deltas = [t \in Txns |-> <<>>]
    /\ wpaths = [t \in Txns |-> {}]
    /\ nops = [t \in Txns |-> 0]
    /\ mon = AllOk
    /\ last = [op |-> "init"]

CONSTANTS t1, t2
TxnSym == Permutations({t1, t2})
=============================================================================
