----------------------- MODULE AssertEncoderTable -----------------------
(* C20: every element-kind sequence of AssertEncoder (1..MaxElems elements) as JSON for the binding. *)
EXTENDS AssertEncoder, SequencesExt, Json, IOUtils
Table == LET ss == SetToSeq(AllStreams) IN [i \in 1..Len(ss) |-> [kinds |-> ss[i]]]
ASSUME \E s \in AllStreams : Len(s) >= 2 /\ ~EndsInNL(s[1])     \* vacuity: a no-newline element followed by another
ASSUME JsonSerialize(IOEnv.VERIF_OUT, Table)
=============================================================================
