\* C26 sessions, thorough (root module: ApiAccessSessionTable): 5 users, every login/logout history of <= 10 operations
CONSTANTS
  MaxUsers = 5
  MaxOps = 10
SPECIFICATION Spec
INVARIANTS
  TypeOK
  InvOnlyLoggedIn
  InvStillRecognised
  InvLogoutExact
CHECK_DEADLOCK FALSE
