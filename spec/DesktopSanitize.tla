--------------------------- MODULE DesktopSanitize ---------------------------
(* C27 -- generated desktop files (wrappers/desktop.go: sanitizeDesktopFile, isValidDesktopFileLine,
   rewriteExecLine, rewriteIconLine, through the exported path wrappers.EnsureSnapDesktopFiles).

   A desktop file is a sequence of LINE CLASSES.  A class is a record of the attributes the sanitizer's
   decisions (and the statement's four clauses) depend on; `Attr` gives the table.  The concrete spellings of
   every class live in props/_desktopsanitize.py, which re-derives the attributes of every spelling with its
   own parser and compares them with `Attr` (exported by TraceDesktopSanitize), so a spelling cannot be filed
   under the wrong class.

   The snap under test has two apps: "foo" (same as the snap name => command "foo") and "app1"
   (command "foo.app1"); variants: instance key or not (`inst`), and the name of the shipped file (`fname`).

   Sanitize(lines, inst, fname) is the algorithm of the code, at its grain:
     1. allow-list (anchored regexps)            -> Allowed
     2. Exec= rewriting (own command exactly / own command + " args" / fallback on the file name)
     3. Icon= rewriting (path must be ${SNAP}/ + canonical; snap.<name>. prefix re-keyed; other snap.* refused)
     4. ${SNAP} substitution on whatever is emitted (python side, concrete)
     5. instance tag emitted after every "[Desktop Entry]" line
     6. bufio.Scanner: a line longer than the 64 KiB token limit ends the scan silently (rest of file dropped)

   The four clauses of the statement are evaluated on the OUTPUT of Sanitize, with the semantics a desktop-file
   consumer applies (key = text before '=' with blanks trimmed; Exec value split on blanks; an icon value
   containing '/' is a path) -- not with the sanitizer's own regexps. *)
EXTENDS Naturals, Sequences, FiniteSets, TLC

CONSTANTS MaxLen,          \* maximal number of lines enumerated
          ExcludedPairs    \* set of strings "class/fname" removed from the enumeration (normally {}): used by
                           \* the check to keep exploring after a spec-level counterexample was replayed on the code

Apps   == {"foo", "app1"}
Fnames == {"app",      \* app1.desktop       (stem equals an app name)
           "other",    \* other.desktop
           "space"}    \* "sp ace.desktop"   (stem contains a blank)

InstanceName(inst) == IF inst THEN "foo_inst" ELSE "foo"

-----------------------------------------------------------------------------
(* Attributes.
   kind     blank | comment | header | key | junk
   hdr      entry | action | shortcut | other            (kind = header)
   key      the key as a CONSUMER reads it: Exec | Icon | Loc (allow-listed, localizable) | Plain (allow-listed,
            not localizable) | Tag (X-SnapInstanceName) | Other
   loc      none | ok | bad                              ([LOCALE] suffix)
   col0     key starts in column 0 and '=' follows the key/locale immediately (what the anchored regexp needs)
   cmd      exact | args | notown ; app                  (key = Exec: command vs. the snap's own commands)
   sep, varslash, clean, snapname, snapdot               (key = Icon, on the RAW value)
   outpath  the emitted value (after ${SNAP} substitution) contains '/'
   outinside  ... and lies (lexically, after cleaning) inside the snap's mount directory
   toolong  longer than bufio.MaxScanTokenSize *)
Base == [kind |-> "junk", hdr |-> "none", key |-> "none", loc |-> "none", col0 |-> TRUE,
         cmd |-> "none", app |-> "none",
         sep |-> FALSE, varslash |-> FALSE, clean |-> TRUE, snapname |-> FALSE, snapdot |-> FALSE,
         outpath |-> FALSE, outinside |-> TRUE, toolong |-> FALSE]

Hdr(h)      == [Base EXCEPT !.kind = "header", !.hdr = h]
Key(k, l)   == [Base EXCEPT !.kind = "key", !.key = k, !.loc = l]
Exec(c, a)  == [Key("Exec", "none") EXCEPT !.cmd = c, !.app = a]
Icon(sp, vs, cl, sn, sd, op, oi) ==
    [Key("Icon", "none") EXCEPT !.sep = sp, !.varslash = vs, !.clean = cl, !.snapname = sn, !.snapdot = sd,
                                !.outpath = op, !.outinside = oi]

Attr ==
   (* non-key lines *)
   "Blank"            :> [Base EXCEPT !.kind = "blank"]
@@ "Comment"          :> [Base EXCEPT !.kind = "comment"]
@@ "HdrEntry"         :> Hdr("entry")
@@ "HdrAction"        :> Hdr("action")
@@ "HdrShortcut"      :> Hdr("shortcut")
@@ "HdrNearMiss"      :> Hdr("other")          \* "[Desktop Entry] ", " [Desktop Entry]", "[Desktop Action a b]"
@@ "HdrOther"         :> Hdr("other")          \* "[Foo]"
@@ "Junk"             :> Base                  \* no '=' at all, or empty key
   (* allow-listed keys *)
@@ "KeyPlain"         :> Key("Plain", "none")  \* Type=, Categories=, Terminal=, X-Ayatana-Desktop-Shortcuts=, ...
@@ "KeyLoc"           :> Key("Loc", "none")    \* Name=, GenericName=, Comment=, Keywords=
@@ "KeyLocOk"         :> Key("Loc", "ok")      \* Name[de]=, Comment[en_GB.UTF-8@euro]=
@@ "KeyLocBad"        :> Key("Loc", "bad")     \* Name[DE]=, Name[]=, Name[de=
@@ "KeyVar"           :> Key("Loc", "none")    \* Comment=${SNAP}/share   (substituted, kept)
@@ "KeyCtl"           :> Key("Loc", "none")    \* embedded CR / NUL / TAB / invalid UTF-8 in the value
   (* not allow-listed *)
@@ "KeyPlainLoc"      :> Key("Plain", "ok")    \* Type[de]=
@@ "ExecLoc"          :> [Exec("notown", "none") EXCEPT !.loc = "ok"]   \* Exec[de]=/bin/sh
@@ "IconLoc"          :> [Icon(TRUE, FALSE, TRUE, FALSE, FALSE, TRUE, FALSE) EXCEPT !.loc = "ok"]  \* Icon[de]=/etc/x
@@ "KeyOther"         :> Key("Other", "none")  \* TryExec=, DBusActivatable=, Path=, NameX=, exec= (case)
@@ "KeyTagSpoof"      :> Key("Tag", "none")    \* X-SnapInstanceName=evil
@@ "KeyLeadSpace"     :> [Key("Loc", "none") EXCEPT !.col0 = FALSE]          \* " Name=foo"
@@ "ExecLeadSpace"    :> [Exec("notown", "none") EXCEPT !.col0 = FALSE]      \* " Exec=/bin/sh"
@@ "ExecSpaceEq"      :> [Exec("notown", "none") EXCEPT !.col0 = FALSE]      \* "Exec =/bin/sh"
@@ "ExecOwnLeadSpace" :> [Exec("exact", "app1") EXCEPT !.col0 = FALSE]       \* " Exec=foo.app1"
   (* Exec *)
@@ "ExecOwnExactApp"  :> Exec("exact", "app1") \* Exec=foo.app1
@@ "ExecOwnExactSnap" :> Exec("exact", "foo")  \* Exec=foo
@@ "ExecOwnArgsApp"   :> Exec("args", "app1")  \* Exec=foo.app1 %U
@@ "ExecOwnArgsSnap"  :> Exec("args", "foo")   \* Exec=foo --x ${SNAP}/y
@@ "ExecOwnPrefix"    :> Exec("notown", "none")   \* Exec=foo.app1x, Exec=foobar, Exec=foo.app1<TAB>-x
@@ "ExecOther"        :> Exec("notown", "none")   \* Exec=bash -c x
@@ "ExecAbs"          :> Exec("notown", "none")   \* Exec=/bin/sh, Exec=/snap/bin/foo.app1
@@ "ExecVar"          :> Exec("notown", "none")   \* Exec=${SNAP}/bin/x
@@ "ExecEmpty"        :> Exec("notown", "none")   \* Exec=
@@ "ExecInstKeyed"    :> Exec("notown", "none")   \* Exec=foo_inst.app1 (valid command is un-keyed)
@@ "ExecEnv"          :> Exec("notown", "none")   \* Exec=env X=1 foo.app1, Exec= foo.app1, Exec="foo.app1"
   (* Icon:                   sep    varslash clean  snapname snapdot outpath outinside *)
@@ "IconVarOk"        :> Icon(TRUE,  TRUE,  TRUE,  FALSE, FALSE, TRUE,  TRUE)    \* ${SNAP}/meta/gui/i.png
@@ "IconVarDotDot"    :> Icon(TRUE,  TRUE,  FALSE, FALSE, FALSE, TRUE,  FALSE)   \* ${SNAP}/../x
@@ "IconVarNonCanon"  :> Icon(TRUE,  TRUE,  FALSE, FALSE, FALSE, TRUE,  TRUE)    \* ${SNAP}//a, ${SNAP}/a/
@@ "IconAbsOutside"   :> Icon(TRUE,  FALSE, TRUE,  FALSE, FALSE, TRUE,  FALSE)   \* /usr/share/x.png
@@ "IconRelPath"      :> Icon(TRUE,  FALSE, TRUE,  FALSE, FALSE, TRUE,  FALSE)   \* a/b.png, ../x
@@ "IconLiteralMount" :> Icon(TRUE,  FALSE, TRUE,  FALSE, FALSE, TRUE,  TRUE)    \* <mount dir>/i.png spelled out
@@ "IconTheme"        :> Icon(FALSE, FALSE, TRUE,  FALSE, FALSE, FALSE, TRUE)    \* firefox, "" (theme name)
@@ "IconSnapName"     :> Icon(FALSE, FALSE, TRUE,  TRUE,  TRUE,  FALSE, TRUE)    \* snap.foo.icon
@@ "IconSnapOther"    :> Icon(FALSE, FALSE, TRUE,  FALSE, TRUE,  FALSE, TRUE)    \* snap.other.x, snap.foo, snap.
@@ "IconVarBare"      :> Icon(FALSE, FALSE, TRUE,  FALSE, FALSE, TRUE,  TRUE)    \* ${SNAP}   (the mount dir itself)
@@ "IconVarNoSep"     :> Icon(FALSE, FALSE, TRUE,  FALSE, FALSE, TRUE,  FALSE)   \* ${SNAP}x, x${SNAP}
@@ "IconSnapNameVar"  :> Icon(FALSE, FALSE, TRUE,  TRUE,  TRUE,  TRUE,  FALSE)   \* snap.foo.${SNAP}
   (* scanner limit *)
@@ "TooLong"          :> [Key("Loc", "none") EXCEPT !.toolong = TRUE]

Classes == DOMAIN Attr

-----------------------------------------------------------------------------
(* The sanitizer. *)

\* 1. isValidDesktopFileLine: anchored alternatives; only localizable keys may carry a (well-formed) locale
Allowed(a) ==
    \/ a.kind \in {"blank", "comment"}
    \/ a.kind = "header" /\ a.hdr \in {"entry", "action", "shortcut"}
    \/ /\ a.kind = "key"
       /\ a.col0
       /\ \/ a.key \in {"Exec", "Icon", "Plain"} /\ a.loc = "none"
          \/ a.key = "Loc" /\ a.loc \in {"none", "ok"}

\* rewriteExecLine's fallback: the app whose name equals the stem of the INSTALLED file.  Through the exported
\* path the installed file is always "<desktop prefix>_<shipped name>", and no app name can contain '_',
\* so the fallback never selects an app (the line is dropped).  Named deviation from the function's comment.
FallbackApp(fname) == "none"

Keep(c)            == [cls |-> c, form |-> "keep",      app |-> "none", args |-> FALSE, name |-> "none"]
ExecOut(c, a, g)   == [cls |-> c, form |-> "exec",      app |-> a,      args |-> g,     name |-> "none"]
IconInst(c, inst)  == [cls |-> c, form |-> "icon_inst", app |-> "none", args |-> FALSE, name |-> InstanceName(inst)]
TagLine(inst)      == [cls |-> "TAG", form |-> "tag",   app |-> "none", args |-> FALSE, name |-> InstanceName(inst)]

LineOut(c, inst, fname) ==
    LET a == Attr[c] IN
    IF ~Allowed(a) THEN << >>
    ELSE IF a.key = "Exec" THEN                              \* 2. rewriteExecLine
        IF a.cmd \in {"exact", "args"} THEN << ExecOut(c, a.app, a.cmd = "args") >>
        ELSE IF FallbackApp(fname) # "none" THEN << ExecOut(c, FallbackApp(fname), FALSE) >>
        ELSE << >>
    ELSE IF a.key = "Icon" THEN                              \* 3. rewriteIconLine
        IF a.sep THEN (IF a.varslash /\ a.clean THEN << Keep(c) >> ELSE << >>)
        ELSE IF a.snapname THEN << IconInst(c, inst) >>
        ELSE IF a.snapdot THEN << >>
        ELSE << Keep(c) >>
    ELSE IF a.kind = "header" /\ a.hdr = "entry" THEN << Keep(c), TagLine(inst) >>     \* 5. tag
    ELSE << Keep(c) >>

RECURSIVE Sanitize(_, _, _)
Sanitize(lines, inst, fname) ==
    IF lines = << >> THEN << >>
    ELSE IF Attr[Head(lines)].toolong THEN << >>             \* 6. scanner gives up, rest silently dropped
    ELSE LineOut(Head(lines), inst, fname) \o Sanitize(Tail(lines), inst, fname)

-----------------------------------------------------------------------------
(* The statement, on an output (sequence of emitted-line records). *)

OutAttr(r) == IF r.form = "tag" THEN Key("Tag", "none") ELSE Attr[r.cls]

\* a consumer-level notion of "allow-listed": independent of column / spacing
AllowlistedSem(a) ==
    \/ a.kind \in {"blank", "comment"}
    \/ a.kind = "header" /\ a.hdr \in {"entry", "action", "shortcut"}
    \/ a.kind = "key" /\ ( \/ a.key \in {"Exec", "Icon", "Plain"} /\ a.loc = "none"
                           \/ a.key = "Loc" /\ a.loc \in {"none", "ok"} )

OnlyAllowlisted(out) ==
    \A i \in 1..Len(out) : out[i].form = "tag" \/ AllowlistedSem(OutAttr(out[i]))

\* the BAMF hint (path of the installed file) is emitted unquoted before the wrapper: a blank in the file name
\* makes the word after it the command that `env` runs
HintBreaksCommand(fname) == fname = "space"

ExecIsOwnWrapper(out, fname) ==
    \A i \in 1..Len(out) :
        OutAttr(out[i]).key = "Exec" =>
            /\ out[i].form = "exec"
            /\ out[i].app \in Apps
            /\ ~HintBreaksCommand(fname)

IconInsideSnap(out) ==
    \A i \in 1..Len(out) :
        OutAttr(out[i]).key = "Icon" =>
            /\ out[i].form \in {"keep", "icon_inst"}
            /\ OutAttr(out[i]).outpath => OutAttr(out[i]).outinside

IsEntryHdr(r) == r.form = "keep" /\ Attr[r.cls].kind = "header" /\ Attr[r.cls].hdr = "entry"

Tagged(out, inst) ==
    /\ \A i \in 1..Len(out) :
          IsEntryHdr(out[i]) => i < Len(out) /\ out[i+1].form = "tag" /\ out[i+1].name = InstanceName(inst)
    /\ \A i \in 1..Len(out) :      \* no other line claims an instance name
          OutAttr(out[i]).key = "Tag" => out[i].form = "tag" /\ i > 1 /\ IsEntryHdr(out[i-1])

Clauses(lines, inst, fname) ==
    LET out == Sanitize(lines, inst, fname) IN
    [only   |-> OnlyAllowlisted(out),
     exec   |-> ExecIsOwnWrapper(out, fname),
     icon   |-> IconInsideSnap(out),
     tagged |-> Tagged(out, inst)]

(* Installing: one call of wrappers.EnsureSnapDesktopFiles sanitizes EVERY shipped desktop file of the snaps
   it is given (deriveDesktopFilesContent keeps all results in memory) and only then writes them
   (EnsureDirState).  A shipped file is [fname, inst, lines]; the result of the call is a function
   file index -> installed content, and each installed content is the sanitizer's output for THAT file alone:
   the files of one call do not influence each other.  The statement is about what is installed, so the four
   clauses are demanded of every Install(files)[i].  (State machine: DesktopInstall.tla.) *)
Install(files) == [i \in 1..Len(files) |-> Sanitize(files[i].lines, files[i].inst, files[i].fname)]

InstalledClauses(files) ==
    [i \in 1..Len(files) |-> Clauses(files[i].lines, files[i].inst, files[i].fname)]

-----------------------------------------------------------------------------
(* Enumeration of every file of at most MaxLen lines x instance key? x file name, as the scanner loop of
   sanitizeDesktopFile: one step consumes one line and appends what it emits to `out`. *)
VARIABLES lines, inst, fname,
          out,        \* what has been written to the new content so far
          stopped     \* the scanner has given up (token too long)
vars == <<lines, inst, fname, out, stopped>>

Init == lines = << >> /\ inst \in BOOLEAN /\ fname \in Fnames /\ out = << >> /\ stopped = FALSE

AppendLine ==
    /\ Len(lines) < MaxLen
    /\ \E c \in Classes :
          /\ (c \o "/" \o fname) \notin ExcludedPairs
          /\ lines' = Append(lines, c)
          /\ IF stopped \/ Attr[c].toolong
                THEN out' = out /\ stopped' = TRUE
                ELSE out' = out \o LineOut(c, inst, fname) /\ stopped' = FALSE
    /\ UNCHANGED <<inst, fname>>

Next == AppendLine
Spec == Init /\ [][Next]_vars

InvOnlyAllowlisted  == OnlyAllowlisted(out)
InvExecIsOwnWrapper == ExecIsOwnWrapper(out, fname)
InvIconInsideSnap   == IconInsideSnap(out)
InvTagged           == Tagged(out, inst)

\* the loop computes the function that TraceDesktopSanitize tabulates for the conformance check
InvLoopIsSanitize == out = Sanitize(lines, inst, fname)

\* sanity of the model itself: nothing is invented (every emitted line comes from an input line or is the tag)
InvNoInvention ==
    \A i \in 1..Len(out) : out[i].form = "tag" \/ \E j \in 1..Len(lines) : lines[j] = out[i].cls
=============================================================================
