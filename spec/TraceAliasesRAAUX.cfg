\* trace validation: every E02 invariant is evaluated on the real states (RAAUX = TRUE)
CONSTANTS
  Snaps <- MCSnaps
  Names <- MCNames3
  Apps <- MCApps
  AutoApps <- MCAuto2
  OpKinds <- MCAllKinds
  InstallFlags <- MCFlags
  FaultModes <- MCFaults
  InitInst <- MCNone
  RAAUX = TRUE
  MaxOps = 0
INIT TInit
NEXT TNext
CHECK_DEADLOCK FALSE
INVARIANTS TypeOK SysMatchesState NoPendingWhenSettled NoDoubleAlias NoNamespaceClash RefreshKeepsManualFollowsDecl FailedChangeRestores
POSTCONDITION Accepted
