\* trace validation; the E02 invariants are evaluated on the real states by Monitor (reported, not fatal) (RAAUX = TRUE)
CONSTANTS
  Snaps <- MCSnaps
  Names <- MCNames3
  Apps <- MCApps
  AutoApps <- MCAuto2
  OpKinds <- MCAllKinds
  InstallFlags <- MCFlags
  FaultModes <- MCFaults
  InitInst <- MCNone
  RAAUX = TRUE
  LateRemoveFaults = TRUE
  MaxOps = 0
INIT TInit
NEXT TNext
CHECK_DEADLOCK FALSE
POSTCONDITION Accepted
