------------------------ MODULE TraceStateStore ------------------------
(* I->T: a trace recorded from the real overlord/state.State (one line per public API call, with the *)
(* state projected through public accessors after the call) must be a behaviour of StateStore, with  *)
(* the model's state agreeing with every projected state.  All StateStore properties are evaluated   *)
(* on the way (cfg), so the C05/C09 properties are checked on the REAL transitions.                  *)
EXTENDS StateStore, IOUtils, Json

VARIABLE l
tvars == <<vars, l>>

Trace == ndJsonDeserialize(IOEnv.VERIF_TRACE)
E == Trace[l]
A == E.args
\* E.stale: differences between the live state and ReadState(last checkpoint the Backend received) right after
\* the call's own Lock/Unlock section - must be empty at EVERY step (a mutator that forgets State.writing())
IsEv(e) == l <= Len(Trace) /\ E.ev = e /\ E.panic = "" /\ Len(E.stale) = 0 /\ l' = l + 1

-----------------------------------------------------------------------------
(* the model state as the accessors show it *)
LanesView(t) == IF t.lanes = <<>> THEN <<0>> ELSE t.lanes
ProgressView(t) == IF t.progress.set THEN [label |-> t.progress.label, done |-> t.progress.done, total |-> t.progress.total]
                   ELSE [label |-> "", done |-> IF Eff(t.status) = "Do" THEN 0 ELSE 1, total |-> 1]
EdgeView(T, s) == [i \in DOMAIN s |-> IF s[i] \in DOMAIN T THEN s[i] ELSE 0]
TaskView(C, T, id) == LET t == T[id] IN
    [id |-> id, kind |-> t.kind, summary |-> t.summary, status |-> Eff(t.status), waited |-> t.waited,
     clean |-> t.clean, progress |-> ProgressView(t), data |-> t.data, waits |-> EdgeView(T, t.waits),
     halts |-> EdgeView(T, t.halts), lanes |-> LanesView(t), log |-> t.log,
     change |-> IF t.change \in DOMAIN C THEN t.change ELSE 0,
     spawn |-> t.spawn, ready |-> t.ready, at |-> t.at, doing |-> t.doing, undoing |-> t.undoing]
ChangeView(C, T, id) == LET c == C[id] IN
    [id |-> id, kind |-> c.kind, summary |-> c.summary, status |-> ChangeStatus(C, T, id), clean |-> c.clean,
     data |-> c.data, tasks |-> c.tasks, spawn |-> c.spawn, ready |-> c.ready, isReady |-> c.isReady]
NoticeView(k, n) ==
    [id |-> n.id, user |-> k[1], type |-> k[2], key |-> k[3], first |-> n.first, last |-> n.last, rep |-> n.rep,
     occ |-> n.occ, data |-> n.data, repeat |-> n.repeat, expire |-> n.expire]
WarningView(m, w) == [msg |-> m, first |-> w.first, last |-> w.last, shown |-> w.shown, expire |-> w.expire,
                      repeat |-> w.repeat]
Distinct(s, F(_)) == \A i, j \in DOMAIN s : i # j => F(s[i]) # F(s[j])
NKey(r) == <<r.user, r.type, r.key>>
RId(r) == r.id
RMsg(r) == r.msg

Match(st, C, T, N, W, KV, ctr) ==
    /\ Len(st.changes) = Cardinality(DOMAIN C) /\ Distinct(st.changes, RId)
    /\ \A i \in DOMAIN st.changes : st.changes[i].id \in DOMAIN C /\ st.changes[i] = ChangeView(C, T, st.changes[i].id)
    /\ st.taskCount = Cardinality(DOMAIN T) /\ Distinct(st.tasks, RId)
    /\ \A i \in DOMAIN st.tasks : st.tasks[i].id \in DOMAIN T /\ st.tasks[i] = TaskView(C, T, st.tasks[i].id)
    /\ \A t \in DOMAIN T : T[t].change # 0 => \E i \in DOMAIN st.tasks : st.tasks[i].id = t
    /\ Len(st.notices) = Cardinality({k \in DOMAIN N : ~NoticeExpired(N[k])}) /\ Distinct(st.notices, NKey)
    /\ \A i \in DOMAIN st.notices : LET k == NKey(st.notices[i]) IN
          k \in DOMAIN N /\ ~NoticeExpired(N[k]) /\ st.notices[i] = NoticeView(k, N[k])
    /\ Len(st.warnings) = Cardinality({m \in DOMAIN W : ~WarnExpired(W[m])}) /\ Distinct(st.warnings, RMsg)
    /\ \A i \in DOMAIN st.warnings : LET m == st.warnings[i].msg IN
          m \in DOMAIN W /\ ~WarnExpired(W[m]) /\ st.warnings[i] = WarningView(m, W[m])
    /\ st.kv = KV
    /\ st.ctr = [lastChange |-> ctr[1], lastTask |-> ctr[2], lastLane |-> ctr[3], lastNotice |-> ctr[4], lastNoticeTs |-> ctr[5]]

MatchNext == Match(E.st, changes', tasks', notices', warnings', kv',
                   <<lastChange', lastTask', lastLane', lastNotice', lastNoticeTs'>>)
Step(ev, act) == IsEv(ev) /\ act /\ last' = Op(ev) /\ MatchNext

TReset == /\ IsEv("Reset")
          /\ changes' = <<>> /\ tasks' = <<>> /\ notices' = <<>> /\ warnings' = <<>> /\ kv' = NoData
          /\ lastChange' = 0 /\ lastTask' = 0 /\ lastLane' = 0 /\ lastNotice' = 0 /\ lastNoticeTs' = 0
          /\ clk' = Clk0 /\ registered' = {}
          /\ issued' = [chg |-> <<>>, task |-> <<>>, lane |-> <<>>, notice |-> <<>>]
          /\ last' = Op("Init") /\ MatchNext

TNewChange == Step("NewChange", NewChange(A.kind, A.summary)) /\ E.ret.id = lastChange'
TNewTask   == Step("NewTask", NewTask(A.kind, A.summary)) /\ E.ret.id = lastTask'
TNewLane   == Step("NewLane", NewLane) /\ E.ret.id = lastLane'
TAddNotice == /\ Step("AddNotice", AddNotice(A.user, A.type, A.key, A.data, A.rep, A.time))
              /\ E.ret.id = notices'[<<A.user, A.type, A.key>>].id

TSimple ==
    \/ Step("Tick", Tick(A.h))
    \/ Step("AddTask", AddTask(A.c, A.t))
    \/ Step("WaitFor", WaitFor(A.a, A.b))
    \/ Step("JoinLane", JoinLane(A.t, A.lane))
    \/ Step("SetStatus", SetStatus(A.t, A.s))
    \/ Step("SetToWait", SetToWait(A.t, A.s))
    \/ Step("ChangeSetStatus", ChangeSetStatus(A.c, A.s))
    \/ Step("TaskSet", TaskSet(A.t, A.k, A.v))
    \/ Step("TaskClear", TaskSet(A.t, A.k, ""))
    \/ Step("ChangeSet", ChangeSet(A.c, A.k, A.v))
    \/ Step("StateSet", StateSet(A.k, A.v))
    \/ Step("Log", Log(A.t, A.lvl, A.msg))
    \/ Step("At", At(A.t, A.when))
    \/ Step("SetProgress", SetProgress(A.t, A.label, A.done, A.total))
    \/ Step("SetClean", SetClean(A.t))
    \/ Step("AddWarning", AddWarning(A.msg, A.rep, A.time))
    \/ Step("OkayWarnings", OkayWarnings(A.t))
    \/ Step("RemoveWarning", RemoveWarning(A.msg))
    \/ Step("Register", Register(A.k))

\* C05: the driver compared everything it can see before and after the reload (ret.same); the model's
\* SaveReload must then also explain the loaded state
TSaveReload == Step("SaveReload", SaveReload) /\ E.ret.same = TRUE

-----------------------------------------------------------------------------
(* Prune.  Which changes/tasks are removed, which are aborted, the abort's effect on statuses and   *)
(* ready times, expiry: all from StateStore!PrunePost.  Read from the log (see StateStore): the choice *)
(* X among equally old changes, the set U of Done tasks undone with their lane, and - for changes  *)
(* whose tasks the abort touched - the change-update notice (its count depends on the walk order)  *)
(* and task logs; the hidden last-recorded-notice status of such a change is guessed.              *)
RECURSIVE SeqOfSet(_)
SeqOfSet(S) == IF S = {} THEN <<>> ELSE LET m == CHOOSE x \in S : \A y \in S : x <= y IN <<m>> \o SeqOfSet(S \ {m})
FromLogNotice(r) == [id |-> r.id, first |-> r.first, last |-> r.last, rep |-> r.rep, occ |-> r.occ, data |-> r.data,
                     repeat |-> r.repeat, expire |-> r.expire]
AllSt == Statuses \cup {"Default"}

TPrune ==
    /\ IsEv("Prune") /\ EdgesClosed
    /\ LET st == E.st
           AC == AbortedCs(A.start, A.pw, A.aw)
           X  == (DOMAIN changes \ {st.changes[i].id : i \in DOMAIN st.changes}) \cap RestCs(A.pw)
           U  == {t \in MayAbort(AC) : \E i \in DOMAIN st.tasks : st.tasks[i].id = t /\ st.tasks[i].status = "Undo"}
           P  == PrunePost(A.start, A.pw, A.aw, A.mx, X, U)
           touched == {c \in AC : \E t \in Range(changes[c].tasks) : P.T[t].status # tasks[t].status}
           AK == {ChangeKey(c) : c \in touched}
           N0 == Drop(notices, {k \in DOMAIN notices : NoticeExpired(notices[k])})
           HasLog(k) == \E i \in DOMAIN st.notices : NKey(st.notices[i]) = k
           NLog(k) == FromLogNotice(st.notices[CHOOSE i \in DOMAIN st.notices : NKey(st.notices[i]) = k])
           fresh == {k \in AK : HasLog(k) /\ k \notin DOMAIN N0}
           LogOf(t) == IF \E i \in DOMAIN st.tasks : st.tasks[i].id = t
                       THEN st.tasks[CHOOSE i \in DOMAIN st.tasks : st.tasks[i].id = t].log ELSE P.T[t].log
           Cand(c) == LET fin == ChangeStatus(P.C, P.T, c) IN
                      {fin} \cup (IF fin = "Do" THEN {"Doing"} ELSE {}) \cup (IF fin = "Undo" THEN {"Undoing"} ELSE {})
                      \cup (IF HasLog(ChangeKey(c)) /\ ChangeKey(c) \in DOMAIN N0 /\ NLog(ChangeKey(c)).occ = N0[ChangeKey(c)].occ
                            THEN {changes[c].lastNotice} ELSE {})
       IN /\ X \in LimitChoices(A.pw, A.mx)
          /\ \A k \in AK \cap DOMAIN N0 : /\ HasLog(k) /\ NLog(k).id = N0[k].id /\ NLog(k).first = N0[k].first
                                          /\ NLog(k).occ >= N0[k].occ /\ (NLog(k).occ = N0[k].occ => NLog(k) = N0[k])
          /\ \A k \in fresh : NLog(k).id > lastNotice /\ NLog(k).id <= lastNotice + Cardinality(fresh)
          /\ notices' = [k \in (DOMAIN N0 \ AK) \cup {k \in AK : HasLog(k)} |-> IF k \in AK THEN NLog(k) ELSE N0[k]]
          /\ lastNotice' = lastNotice + Cardinality(fresh)
          /\ lastNoticeTs' = st.ctr.lastNoticeTs /\ lastNoticeTs' >= lastNoticeTs
          /\ \E f \in [touched -> AllSt] :
                /\ \A c \in touched : f[c] \in Cand(c)
                /\ changes' = [c \in DOMAIN P.C |-> IF c \in touched THEN [P.C[c] EXCEPT !.lastNotice = f[c]] ELSE P.C[c]]
          /\ tasks' = [t \in DOMAIN P.T |-> IF tasks[t].change \in touched THEN [P.T[t] EXCEPT !.log = LogOf(t)] ELSE P.T[t]]
          /\ issued' = [issued EXCEPT !.notice = @ \o SeqOfSet({NLog(k).id : k \in fresh})]
    /\ warnings' = Drop(warnings, {m \in DOMAIN warnings : WarnExpired(warnings[m])})
    /\ UNCHANGED <<kv, lastChange, lastTask, lastLane, clk, registered>>
    /\ last' = PruneOp(A.start, A.pw, A.aw, A.mx)
    /\ MatchNext

TInit == Init /\ last = Op("Init") /\ l = 1
TNext == TReset \/ TNewChange \/ TNewTask \/ TNewLane \/ TAddNotice \/ TSimple \/ TSaveReload \/ TPrune
TSpec == TInit /\ [][TNext]_tvars

Accepted == TLCGet("stats").diameter - 1 = Len(Trace)
=============================================================================
