----------------------------- MODULE TraceChannel -----------------------------
(* C34 I->T: observations of the real snap/channel functions on seeded random channel strings over
   a wider component set than the exhaustive domain (one JSON object per line: case, s, cur, new,
   pin = component lists; pv, parse = [ok, track, risk, branch, name]; full, cfull, resolve,
   pinned = [ok, out]) must equal the reference of Channel.tla. Per-case verdicts are written to
   IOEnv.VERIF_OUT, then TLC ASSUMEs that no observation differs. (Every row is built once and the
   verdict is read back from the file: see TraceDebVersion.tla for the TLC evaluation notes.) *)
EXTENDS Channel

Fields == <<"pv", "parse", "full", "cfull", "resolve", "pinned">>
FieldOk(o, f) ==
    CASE f = "pv"      -> o.pv = ParseVerbatim(o.s)
      [] f = "parse"   -> o.parse = Parse(o.s)
      [] f = "full"    -> o.full = Full(o.s)
      [] f = "cfull"   -> o.cfull = (LET c == Parse(o.s) IN IF c.ok THEN Full(c.name) ELSE Err)
      [] f = "resolve" -> o.resolve = Resolve(o.cur, o.new)
      [] f = "pinned"  -> o.pinned = ResolvePinned(o.pin, o.new)

Check(obs) ==
    LET rows == [i \in 1..Len(obs) |->
                   [case |-> obs[i].case, fns |-> SelectSeq(Fields, LAMBDA f : ~FieldOk(obs[i], f))]]
    IN  JsonSerialize(IOEnv.VERIF_OUT, [checked |-> Len(obs), bad |-> SelectSeq(rows, LAMBDA r : r.fns # <<>>)])

TRInit == x = 1
ASSUME Check(ndJsonDeserialize(IOEnv.VERIF_TRACE))
ASSUME JsonDeserialize(IOEnv.VERIF_OUT).bad = <<>>
=============================================================================
