SPECIFICATION Spec
CONSTANTS
    MaxRev = 3
    MaxOps = 5
    InstallRevs <- Rev1
    AttrOpts <- AttrPlain
    RetainOpts <- RetNone
    CfgOpts <- Cfg0
    OnClassicOpts <- BoolF
    BootOpts <- Boot2
    KernelOpts <- BoolT
    OpFaults = FALSE
INVARIANTS
    TypeOK
    C12_InUseStrict
CONSTRAINT StateConstraint
CHECK_DEADLOCK FALSE
