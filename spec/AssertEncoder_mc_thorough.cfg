SPECIFICATION Spec
CONSTANTS
  Apis = {"encode", "raw", "cs"}
  MaxElems = 4
INVARIANTS WellSeparated SepAlwaysDue
CHECK_DEADLOCK FALSE
