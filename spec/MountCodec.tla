---------------------------- MODULE MountCodec ----------------------------
(* C28, last clause: "mount entries written to a profile read back unchanged"
   (osutil/mountentry.go: escape/unescape/MountEntry.String, mountentry_linux.go: ParseMountEntry,
    mountprofile_linux.go: WriteTo/ReadMountProfile).

   Character-level model of the writer and of the reader.  A field is a sequence of one-character strings.
   The domain is run-length: every sequence of at most MaxTok tokens over
       a  sp  tab  nl  bs(\)  hash(#)  oct(the four characters \040)  cr(carriage return)
   (non-empty, not starting with #; options without commas), placed in each of the four text fields of an
   entry whose other fields are plain.

   TLC (i) checks the laws  Unesc(Esc(f)) = f,  Parse(PrintE(e)) = e,  Load(Save(<<e>>)) = <<e>>  on the model
   for the whole domain without cr (ASSUME, below) and tabulates them for the domain with cr, and (ii) exports
   the table  field |-> printed line, laws  to IOEnv.VERIF_OUT; the Go driver (harness/ext/mountentry)
   evaluates the real String/ParseMountEntry/SaveMountProfileText/LoadMountProfileText on the same rows and
   props/_mountplan.py compares row by row.                                                                *)
EXTENDS Naturals, Sequences, FiniteSets, TLC, IOUtils, Json

CONSTANTS MaxTok

Tokens == {"a", "sp", "tab", "nl", "bs", "hash", "oct", "cr"}
BaseTokens == Tokens \ {"cr"}
TokChars(t) == CASE t = "a" -> <<"a">> [] t = "sp" -> <<" ">> [] t = "tab" -> <<"\t">> [] t = "nl" -> <<"\n">>
                 [] t = "bs" -> <<"\\">> [] t = "hash" -> <<"#">> [] t = "oct" -> <<"\\", "0", "4", "0">>
                 [] t = "cr" -> <<"\r">>
RECURSIVE Flat(_)
Flat(ss) == IF ss = <<>> THEN <<>> ELSE Head(ss) \o Flat(Tail(ss))
Expand(ts) == Flat([i \in DOMAIN ts |-> TokChars(ts[i])])
RECURSIVE Str(_)
Str(cs) == IF cs = <<>> THEN "" ELSE Head(cs) \o Str(Tail(cs))

\* ---- writer
EscC(c) == CASE c = " "  -> <<"\\", "0", "4", "0">>
             [] c = "\t" -> <<"\\", "0", "1", "1">>
             [] c = "\n" -> <<"\\", "0", "1", "2">>
             [] c = "\\" -> <<"\\", "1", "3", "4">>
             [] OTHER    -> <<c>>
Esc(cs) == Flat([i \in DOMAIN cs |-> EscC(cs[i])])
SP == <<" ">>
\* entry = [n, d, t, o] (one option), dump frequency and pass number 0
PrintE(e) == Esc(e.n) \o SP \o Esc(e.d) \o SP \o Esc(e.t) \o SP \o Esc(e.o) \o <<" ", "0", " ", "0">>
Save(es) == Flat([i \in DOMAIN es |-> PrintE(es[i]) \o <<"\n">>])

\* ---- reader
Dec == (<<"\\", "0", "4", "0">> :> " ") @@ (<<"\\", "0", "1", "1">> :> "\t")
       @@ (<<"\\", "0", "1", "2">> :> "\n") @@ (<<"\\", "1", "3", "4">> :> "\\")
RECURSIVE UnescFrom(_, _)
UnescFrom(cs, i) ==
    IF i > Len(cs) THEN <<>>
    ELSE IF i + 3 <= Len(cs) /\ SubSeq(cs, i, i + 3) \in DOMAIN Dec
         THEN <<Dec[SubSeq(cs, i, i + 3)]>> \o UnescFrom(cs, i + 4)
         ELSE <<cs[i]>> \o UnescFrom(cs, i + 1)
Unesc(cs) == UnescFrom(cs, 1)

IsSep(c) == c = " " \/ c = "\t"
\* strings.FieldsFunc: maximal runs of non-separators
RECURSIVE FieldsFrom(_, _, _)
FieldsFrom(cs, i, cur) ==
    IF i > Len(cs) THEN (IF cur = <<>> THEN <<>> ELSE <<cur>>)
    ELSE IF IsSep(cs[i]) THEN (IF cur = <<>> THEN <<>> ELSE <<cur>>) \o FieldsFrom(cs, i + 1, <<>>)
         ELSE FieldsFrom(cs, i + 1, Append(cur, cs[i]))
Fields(cs) == FieldsFrom(cs, 1, <<>>)
\* the first field that starts with # begins a comment
RECURSIVE CutComment(_, _)
CutComment(fs, i) == IF i > Len(fs) THEN fs ELSE IF fs[i][1] = "#" THEN SubSeq(fs, 1, i - 1) ELSE CutComment(fs, i + 1)
NoEntry == [err |-> TRUE]
Parse(line) ==
    LET fs == CutComment(Fields(line), 1) IN
    IF Len(fs) < 3 \/ Len(fs) > 6 THEN NoEntry
    ELSE [n |-> Unesc(fs[1]), d |-> Unesc(fs[2]), t |-> Unesc(fs[3]),
          o |-> IF Len(fs) > 3 THEN Unesc(fs[4]) ELSE <<>>]
\* bufio.ScanLines: split at \n, drop one trailing \r;  strings.TrimSpace: drop leading/trailing white space
RECURSIVE Lines(_, _, _)
Lines(cs, i, cur) ==
    IF i > Len(cs) THEN (IF cur = <<>> THEN <<>> ELSE <<cur>>)
    ELSE IF cs[i] = "\n" THEN <<cur>> \o Lines(cs, i + 1, <<>>) ELSE Lines(cs, i + 1, Append(cur, cs[i]))
DropCR(l) == IF l # <<>> /\ l[Len(l)] = "\r" THEN SubSeq(l, 1, Len(l) - 1) ELSE l
IsWs(c) == c \in {" ", "\t", "\n", "\r"}
RECURSIVE TrimL(_)
TrimL(l) == IF l # <<>> /\ IsWs(l[1]) THEN TrimL(Tail(l)) ELSE l
RECURSIVE TrimR(_)
TrimR(l) == IF l # <<>> /\ IsWs(l[Len(l)]) THEN TrimR(SubSeq(l, 1, Len(l) - 1)) ELSE l
Load(text) ==
    LET ls == Lines(text, 1, <<>>)
        tl == [i \in DOMAIN ls |-> TrimR(TrimL(DropCR(ls[i])))]
        keep == SelectSeq(tl, LAMBDA l : l # <<>> /\ l[1] # "#")
    IN [i \in DOMAIN keep |-> Parse(keep[i])]

\* ---- domain
RECURSIVE SeqsUpTo(_, _)
SeqsUpTo(S, n) == IF n = 0 THEN {<<>>} ELSE LET R == SeqsUpTo(S, n - 1) IN R \cup {Append(r, x) : r \in R, x \in S}
FieldToks(T) == {ts \in SeqsUpTo(T, MaxTok) : ts # <<>> /\ ts[1] # "hash"}
Plain == <<"x">>
EntryWith(pos, cs) == [n |-> IF pos = "n" THEN cs ELSE Plain, d |-> IF pos = "d" THEN cs ELSE Plain,
                       t |-> IF pos = "t" THEN cs ELSE Plain, o |-> IF pos = "o" THEN cs ELSE Plain]
Positions == {"n", "d", "t", "o"}

LawEsc(cs)   == Unesc(Esc(cs)) = cs
LawParse(e)  == Parse(PrintE(e)) = e
LawLoad(e)   == Load(Save(<<e>>)) = <<e>>
LawLoad2(e)  == LET p == EntryWith("n", Plain) IN Load(Save(<<p, e, p>>)) = <<p, e, p>>

\* design check: on the domain of the statement without carriage returns the model satisfies every law
ASSUME \A ts \in FieldToks(BaseTokens) : LET cs == Expand(ts) IN
          /\ LawEsc(cs)
          /\ \A pos \in Positions : LET e == EntryWith(pos, cs) IN LawParse(e) /\ LawLoad(e) /\ LawLoad2(e)

\* table for the binding (whole domain including cr)
Rows == {[tok |-> ts, pos |-> pos] : ts \in FieldToks(Tokens), pos \in Positions}
RowOut(r) == LET cs == Expand(r.tok)
                 e == EntryWith(r.pos, cs)
             IN [tok |-> r.tok, pos |-> r.pos, field |-> Str(cs), esc |-> Str(Esc(cs)), line |-> Str(PrintE(e)),
                 lawesc |-> LawEsc(cs), lawparse |-> LawParse(e), lawload |-> LawLoad(e) /\ LawLoad2(e)]
ASSUME JsonSerialize(IOEnv.VERIF_OUT, [rows |-> {RowOut(r) : r \in Rows}])

VARIABLE x
Init == x = 0
Next == x' = x /\ FALSE
=============================================================================
