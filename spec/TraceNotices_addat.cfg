\* I->T validation of real histories that also use options.Time (AddAt): conformance only -- the
\* exactly-once claim does not extend to caller-supplied times (see Notices_mc_addat.cfg)
SPECIFICATION TSpec
CONSTANTS
  Users = {0, 1000, 1001}
  Types = {"change-update", "warning", "snap-run-inhibit"}
  Keys = {"k1", "k2", "k3"}
  RepeatAfters = {0, 2, 5}
  Data = {"", "d1", "d2"}
  Clients = {"c1", "c2", "c3"}
  CfgChoices = {}
  ClockValues <- TraceClock
  MaxAdds = 100000
  Bump = TRUE
  BroadcastRepeat = TRUE
  AddAtTimes <- TraceClock
  ClockRegress = TRUE
INVARIANTS
  UniqueNotices
  Ownership
  DaemonOwnership
  RepeatAfterSuppression
  NoLostWakeup
PROPERTIES
  TRepeatAfterProp
POSTCONDITION Accepted
CHECK_DEADLOCK FALSE
