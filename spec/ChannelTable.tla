----------------------------- MODULE ChannelTable -----------------------------
(* C34 T->I: tabulate the reference into IOEnv.VERIF_OUT. IOEnv.VERIF_PART selects the table:
     parse    every string i in VERIF_LO..VERIF_HI of Dom (<= 4 components):
              ParseVerbatim, Parse (=Clean o ParseVerbatim), Full(string), Full(clean name)
     resolve  Resolve(cur, new) for cur in VERIF_LO..VERIF_HI, every new, both <= 3 components
     pinned   ResolvePinned(track, new): every track <= 2 components, every new <= 3 components;
              ResolveChannel(old, new, pinned) for model-expressible pinned tracks and three `old`s *)
EXTENDS Channel

Part == IOEnv.VERIF_PART
Lo == EnvInt("VERIF_LO", 1)
Hi == EnvInt("VERIF_HI", N)

ParseRow(i) == LET c == Parse(Dom[i]) IN
    [in |-> Dom[i], pv |-> ParseVerbatim(Dom[i]), parse |-> c, full |-> Full(Dom[i]),
     cfull |-> IF c.ok THEN Full(c.name) ELSE Err]
ParseTable == [part |-> "parse", rows |-> [i \in 1..(Hi - Lo + 1) |-> ParseRow(Lo + i - 1)]]

ResolveTable == [part |-> "resolve",
                 news |-> [j \in 1..N3 |-> Dom[j]],
                 rows |-> [i \in 1..(Hi - Lo + 1) |->
                             [cur |-> Dom[Lo + i - 1], res |-> [j \in 1..N3 |-> Resolve(Dom[Lo + i - 1], Dom[j])]]]]

\* pinned tracks a model assertion can express: one component, not a risk name, not empty
ModelTracks == <<"t1", "2.0", "latest", "b1">>
Olds == << <<"">>, <<"t1", "stable">>, <<"edge">>, <<"2.0", "edge", "b1">> >>
\* directed extra: pinned tracks that have other tracks as proper string prefixes / extensions, and
\* requests with a leading slash (first component empty); component-wise the answer is plain
XTracks == << <<"t10">>, <<"t1.1">>, <<"t1">>, <<"t">>, <<"2.0">> >>
XFirst == <<"t", "t1", "t10", "t1.1", "t1-x", "2", "2.0", "">>
XNews == [k \in 1..(4 * Len(XFirst)) |->
            LET f == XFirst[((k - 1) \div 4) + 1] v == (k - 1) % 4 IN
            CASE v = 0 -> <<f>> [] v = 1 -> <<f, "stable">> [] v = 2 -> <<f, "edge", "b1">> [] v = 3 -> <<"", f, "stable">>]
PinnedTable == [part |-> "pinned",
                xnews |-> XNews,
                xrows |-> [t \in 1..Len(XTracks) |->
                             [track |-> XTracks[t], res |-> [k \in 1..Len(XNews) |-> ResolvePinned(XTracks[t], XNews[k])]]],
                news |-> [j \in 1..N3 |-> Dom[j]],
                rows |-> [t \in 1..N2 |-> [track |-> Dom[t], res |-> [j \in 1..N3 |-> ResolvePinned(Dom[t], Dom[j])]]],
                rc   |-> [t \in 1..(Len(ModelTracks) + 1) |->
                            LET pin == IF t > Len(ModelTracks) THEN <<"">> ELSE <<ModelTracks[t]>> IN
                            [pinned |-> pin,
                             olds |-> [o \in 1..Len(Olds) |->
                                         [old |-> Olds[o], res |-> [j \in 1..N3 |-> ResolveChannel(Olds[o], Dom[j], pin)]]]]]]

TInit == x = 1
ASSUME JsonSerialize(IOEnv.VERIF_OUT,
                     CASE Part = "parse" -> ParseTable [] Part = "resolve" -> ResolveTable [] Part = "pinned" -> PinnedTable)
=============================================================================
