----------------------------- MODULE TimerQueries -----------------------------
(* C16 I->T: validate query records produced by the real timeutil code against *)
(* the contract of TimerWindows.tla.                                           *)
(*   Timers  (VERIF_SCHEDS, NDJSON): [id, str, timer |-> <<sched...>>]          *)
(*            timer = AST returned by the real ParseSchedule(str)               *)
(*   Queries (VERIF_TRACE,  NDJSON): [case, t (1-based line of Timers), last,   *)
(*            now, max, w |-> <<[s,e]...>> (Schedule.Next(last) of each  *)
(*            event set, evaluated with the clock at `now`), dlo, dhi (floor /  *)
(*            ceiling in seconds of timeutil.Next(timer, last, max))]           *)
(* Output (VERIF_OUT, JSON): the rejected records with the first failing clause.*)
EXTENDS TimerWindows, IOUtils, Json

VARIABLE x

Timers  == ndJsonDeserialize(IOEnv.VERIF_SCHEDS)
Queries == ndJsonDeserialize(IOEnv.VERIF_TRACE)

HOUR == 3600

Reason(q) ==
    LET timer == Timers[q.t].timer
        n     == Len(timer)
        fb    == Fallback(q.last, q.max, HOUR)
        cands == {q.w[i] : i \in 1..n}
    IN
    IF Len(q.w) # n THEN "shape"
    ELSE IF \E i \in 1..n : ~IsWindow(timer[i], q.w[i]) THEN "not-a-window"       \* w \in Windows(sched)
    ELSE IF \E i \in 1..n : q.w[i].e < q.now THEN "window-already-over"           \* w.End >= now
    ELSE IF \E i \in 1..n : In(q.w[i], q.last) THEN "window-of-last-refresh"      \* last \notin w
    ELSE IF ~\E c \in Choosable(cands, fb) : DelayOK(c, fb, q.now, q.dlo, q.dhi)
         THEN (IF \E c \in cands \cup {fb} : DelayOK(c, fb, q.now, q.dlo, q.dhi)
               THEN "past-the-limit-or-limit-not-first" ELSE "delay-outside-window")
    ELSE "ok"

Bad == {r \in {[i |-> i, case |-> Queries[i].case, why |-> Reason(Queries[i])] : i \in 1..Len(Queries)} : r.why # "ok"}

\* vacuity statistics: how many records exercised which branch
Stats == [n        |-> Len(Queries),
          fallback |-> Cardinality({i \in 1..Len(Queries) :
                          LET q == Queries[i] IN \A j \in 1..Len(q.w) : q.w[j].s >= q.last + q.max}),
          overdue  |-> Cardinality({i \in 1..Len(Queries) : LET q == Queries[i] IN q.last + q.max < q.now}),
          started  |-> Cardinality({i \in 1..Len(Queries) :
                          LET q == Queries[i] IN \E j \in 1..Len(q.w) : q.w[j].s < q.now}),
          spread   |-> Cardinality({i \in 1..Len(Queries) : Queries[i].dlo # Queries[i].dhi})]

ASSUME JsonSerialize(IOEnv.VERIF_OUT, [bad |-> Bad, stats |-> Stats])

Init == x = 0
Next == UNCHANGED x
=============================================================================
