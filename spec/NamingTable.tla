----------------------------- MODULE NamingTable -----------------------------
(***************************************************************************)
(* C24: the bounded domains of Naming.tla, the theorems TLC checks on them,*)
(* and the export of expected verdicts (T->I) / judging of supplied inputs.*)
(*                                                                         *)
(* IOEnv.VERIF_PART selects what one TLC run does:                         *)
(*   "plain"      NameLaws + NameRow of every string of PlainDom -> VERIF_OUT*)
(*   "rle"        the same for every RLE string of the domain              *)
(*   "rle:<ch>"   the same for the RLE strings starting with ch (parallel) *)
(*   "tags"       laws, GeneratedTagLaws + TagRow of every query of TagDom   *)
(*   "tags:app" / "tags:hook"   the same in two halves (parallel)          *)
(*   "file"       rows for the inputs of VERIF_IN (ndjson; {"k":"name","s":*)
(*                runs} or {"k":"tag","t":runs,"inst":runs,"has":bool,     *)
(*                "comp":runs}, runs = [[ch,n],..])           -> VERIF_OUT *)
(***************************************************************************)
EXTENDS Naming, IOUtils, Json

CONSTANTS PlainAlpha, PlainMax,     \* all plain strings of length <= PlainMax over PlainAlpha
          RleAlpha, RleLens, RleMaxRuns,  \* RLE strings: <= RleMaxRuns runs, chars RleAlpha, run lengths RleLens
          TagLevel                        \* 1: reduced sets of tag parts (quick), 2: full sets

Part == IOEnv.VERIF_PART

---------------------------------------------------------------------------
PlainDom == {FromChars(cs) : cs \in UNION {[1..k -> PlainAlpha] : k \in 0..PlainMax}}

RunsOf(ch) == {Run(ch, n) : n \in RleLens}
Extend(S) == {Append(s, r) : s \in S, r \in UNION {RunsOf(ch) : ch \in RleAlpha}}
Canon(S) == {s \in S : \A i \in 1..(Len(s) - 1) : s[i].c # s[i + 1].c}
RECURSIVE RleUpTo(_, _)
RleUpTo(S, k) == IF k <= 1 THEN S ELSE S \cup RleUpTo(Canon(Extend(S)), k - 1)
\* all canonical RLE strings with 1..RleMaxRuns runs whose first run is of character ch
RleDomFrom(ch) == RleUpTo({<<r>> : r \in RunsOf(ch)}, RleMaxRuns)

---------------------------------------------------------------------------
(* Tag queries: tags assembled from boundary parts, asked for the same / another instance+component *)
R(ch, n) == <<Run(ch, n)>>
S2(c1, c2) == Cat(Str1(c1), Str1(c2))
S3(c1, c2, c3) == Cat(S2(c1, c2), Str1(c3))
Us == Str1("_")

InstQ == { S2("a","b"), R("a",40), S2("0","a"), Cat(Cat(R("a",40), Us), R("0",10)), S3("a","b","c"),  \* valid
           R("a",1), S2("1","2"), R("a",41), Cat(Cat(S2("a","b"), Us), R("0",11)), S2("A","b") }         \* invalid
InstF == InstQ \cup
         { S2("a","0"), S3("a","-","b"), Cat(S2("a","b"), S2("_","k")),                                 \* valid
           Cat(S2("a","b"), Us), S3("-","a","b"), S3("a","b","-"), Cat(S2("a","-"), S2("-","b")),
           Cat(S2("a","b"), S2("_","K")), <<>>, S3("a",".","b") }                                       \* invalid
CompQ == { NoComp, Comp(S2("c","d")), Comp(S3("c","d","e")), Comp(R("a",40)), Comp(R("1",1)), Comp(R("a",41)) }
CompF == CompQ \cup { Comp(S2("0","c")), Comp(R("c",1)), Comp(S2("C","d")), Comp(<<>>), Comp(S2("1","2")) }
NameQ == { R("x",1), S3("x","-","y"), S2("X","1"), S2("1","x"), S2("x","-"), <<>>, S3("x",".","y"), HookLit }
NameF == NameQ \cup { Cat(S2("x","-"), S2("-","y")), S2("-","x"), S3("x","+","y"), S2("x","!") }
InstS  == IF TagLevel = 1 THEN InstQ ELSE InstF
CompS  == IF TagLevel = 1 THEN CompQ ELSE CompF
NameS0 == IF TagLevel = 1 THEN NameQ ELSE NameF
Kinds == {"app", "hook"}
BadKinds == {"hooq", "snaq"}      \* wrong literals: only with the first few parts

GenTag(kind, inst, comp, name) ==
    LET ic == IF comp.has THEN Cat(Cat(inst, Plus), comp.s) ELSE inst
        j(a, b) == Cat(Cat(a, Dot), b)
    IN CASE kind = "app"  -> j(j(SnapLit, ic), name)
         [] kind = "hook" -> j(j(j(SnapLit, ic), HookLit), name)
         [] kind = "hooq" -> j(j(j(SnapLit, ic), Lit(<<"h","o","o","q">>)), name)
         [] kind = "snaq" -> j(j(Lit(<<"s","n","a","q">>), ic), name)

\* names that make the whole tag exactly 255 / 256 / 257 characters long
FillNames(kind, inst, comp) ==
    LET base == SLen(GenTag(kind, inst, comp, <<>>))
    IN {R("x", k - base) : k \in {k \in {255, 256, 257} : k > base}}

OtherInst == S2("z","z")
\* the basic owners a tag is asked for: its own, component toggled, an unrelated instance, the snap without key
Queries(inst, comp) ==
    { [inst |-> inst, comp |-> comp],
      [inst |-> inst, comp |-> IF comp.has THEN NoComp ELSE Comp(S2("c","d"))],
      [inst |-> OtherInst, comp |-> comp],
      [inst |-> SnapOfInstance(inst), comp |-> comp] }

\* owners RELATED to the ones inside the tag: proper prefix, proper extension, last character different,
\* empty, and for instances also an added / extended instance key.  (A validator that compares only a prefix,
\* or only up to the shorter length, agrees on equal and on unrelated owners and differs exactly here.)
DropLast(s) == IF s = <<>> THEN <<>>
               ELSE SubSeq(s, 1, Len(s) - 1) \o (IF s[Len(s)].n > 1 THEN <<Run(s[Len(s)].c, s[Len(s)].n - 1)>> ELSE <<>>)
RelatedStr(s) == { DropLast(s), DropLast(DropLast(s)), Cat(s, Str1("d")), Cat(s, S2("-","d")),
                   Cat(DropLast(s), Str1("z")), <<>> }
RelatedQueries(inst, comp) ==
    { [inst |-> i2, comp |-> comp] : i2 \in RelatedStr(inst) \cup {Cat(inst, S2("_","x")), Cat(inst, Str1("0"))} }
    \cup (IF comp.has THEN { [inst |-> inst, comp |-> Comp(c2)] : c2 \in RelatedStr(comp.s) } ELSE {})
PrimaryName == R("x", 1)           \* the related owners are asked for the tags with this app / hook name

TagQ(k, i, c, N) == UNION { { [t |-> GenTag(k, i, c, n), inst |-> q.inst, comp |-> q.comp]
                                : q \in Queries(i, c) \cup (IF n = PrimaryName THEN RelatedQueries(i, c) ELSE {}) }
                            : n \in N }
TagDomKind(k) == UNION { TagQ(k, i, c, NameS0 \cup FillNames(k, i, c)) : i \in InstS, c \in CompS }
TagDomBad == UNION { TagQ(k, i, c, NameQ) : k \in BadKinds, i \in {S2("a","b"), R("a",1)}, c \in {NoComp, Comp(S2("c","d"))} }
TagDom == TagDomKind("app") \cup TagDomKind("hook") \cup TagDomBad

---------------------------------------------------------------------------
(* Laws checked by TLC on the bounded domains, evaluated together with the verdict row of each element *)
(* (one pass; the checker requires laws = TRUE in every row: a FALSE is a spec-level counterexample).    *)

NameRec(s) ==
    LET r == NameRow(s)
        laws ==
          /\ r.snap <=> (r.inst /\ IndexOf(s, "_") = 0)
          /\ r.inst => (r.len >= 2 /\ r.len <= 51 /\ ValidSnapName(SnapOfInstance(s)))
          /\ r.snap => r.app
          /\ r.hook => r.app
          /\ r.comp => (r.len >= 5 /\ r.len <= 81 /\ ~r.inst)
          /\ r.inst => TagBelongs(AppTag(s, R("x", 1)), s, NoComp)        \* an accepted snap's app tag is its own
    IN [r |-> r, laws |-> laws]

TagRec(q) ==
    LET r == TagRow(q)
        p == ParseTag(q.t)
        laws ==
          /\ r.belongs => (r.instok /\ r.compok)
          /\ r.inv => (r.belongs /\ TagInScope(q.t))
          /\ p.ok => /\ r.belongs <=> (q.inst = p.inst /\ q.comp = p.comp)  \* a tag belongs to exactly what it parses to
                      /\ q.t = (IF p.kind = "app" THEN AppTag(p.inst, p.name) ELSE HookTag(p.inst, p.comp, p.name))
          /\ ~p.ok => ~r.belongs
          /\ r.inv <=> InvocationAccepts(q.t, q.inst, IF q.comp.has
                                                       THEN Comp(Cat(Cat(SnapOfInstance(q.inst), Plus), q.comp.s))
                                                       ELSE NoComp)
    IN [r |-> r, laws |-> laws]

\* every app / hook tag of a snap the daemon accepts parses back to that snap (and component)
GeneratedTagLaws ==
    \A i \in InstS, c \in CompS, n \in NameS0 :
        /\ (ValidInstanceName(i) /\ ValidAppName(n)) => TagBelongs(AppTag(i, n), i, NoComp)
        /\ (ValidInstanceName(i) /\ (c.has => ValidSnapName(c.s)) /\ ValidHookName(n)) => TagBelongs(HookTag(i, c, n), i, c)

NamePart(D) == JsonSerialize(IOEnv.VERIF_OUT, [rows |-> {NameRec(s) : s \in D}, gen |-> TRUE])
TagPart(D)  == JsonSerialize(IOEnv.VERIF_OUT, [rows |-> {TagRec(q) : q \in D}, gen |-> GeneratedTagLaws])

---------------------------------------------------------------------------
(* Inputs supplied by the checker (random strings beyond the bound, edited tags) *)
RunsIn(x) == Norm([i \in DOMAIN x |-> Run(x[i][1], x[i][2])])
FileRow(o) ==
    IF o.k = "name" THEN NameRow(RunsIn(o.s))
    ELSE TagRow([t |-> RunsIn(o.t), inst |-> RunsIn(o.inst),
                 comp |-> IF o.has THEN Comp(RunsIn(o.comp)) ELSE NoComp])
FileTable(obs) == [i \in DOMAIN obs |-> FileRow(obs[i])]

RlePrefix == "rle:"
Work ==
    CASE Part = "plain"    -> NamePart(PlainDom)
      [] Part = "rle"      -> NamePart(UNION {RleDomFrom(ch) : ch \in RleAlpha})
      [] Part = "tags"     -> TagPart(TagDom)
      [] Part = "tags:app" -> TagPart(TagDomKind("app") \cup TagDomBad)
      [] Part = "tags:hook" -> TagPart(TagDomKind("hook"))
      [] Part = "file"     -> JsonSerialize(IOEnv.VERIF_OUT, [rows |-> FileTable(ndJsonDeserialize(IOEnv.VERIF_IN))])
      [] OTHER             -> \E ch \in RleAlpha : Part = RlePrefix \o ch /\ NamePart(RleDomFrom(ch))

VARIABLE dummy
\* evaluated exactly once, while TLC computes the single initial state (an ASSUME is evaluated twice)
TInit == dummy = 0 /\ Work
TNext == UNCHANGED dummy
=============================================================================
