--------------------------- MODULE ConfigTxnMC ---------------------------
(* Model-checking instances of ConfigTxn: constant menus that cannot be written in a .cfg *)
EXTENDS ConfigTxn, Randomization

V1 == Lf("1")
V2 == Lf("2")
VS == Lf("s")
MB1 == Mp("b" :> V1)
MBN == Mp("b" :> NullV)
MC2 == Mp("c" :> V2)
MBC1 == Mp("b" :> Mp("c" :> V1))
MB1CN == Mp(("b" :> V1) @@ ("c" :> NullV))

A == <<"a">>
B == <<"b">>
AB == <<"a", "b">>
AC == <<"a", "c">>
ABC == <<"a", "b", "c">>
ABA == <<"a", "b", "a">>
BA == <<"b", "a">>

\* quick: 12 writes covering leaf / null / map / map-with-null / empty map at depth 1, leaf / null / map at
\* depth 2, leaf / null at depth 3 and an unrelated top-level option
MenuQuick == { <<A, V1>>, <<A, NullV>>, <<A, MB1>>, <<A, MBN>>, <<A, EmptyMap>>,
               <<AB, V2>>, <<AB, NullV>>, <<AB, MC2>>,
               <<ABC, V1>>, <<ABC, NullV>>,
               <<AC, VS>>, <<B, V1>> }

MenuThorough == MenuQuick \cup
             { <<A, MBC1>>, <<A, MB1CN>>, <<AB, V1>>, <<AB, EmptyMap>>, <<AC, NullV>>,
               <<ABA, V2>>, <<B, NullV>>, <<B, MB1>>, <<BA, V1>>, <<BA, NullV>> }

Keys2 == {"a", "b", "c"}
PathsUpTo3 == {<<>>} \cup {<<x>> : x \in Keys2} \cup {<<x, y>> : x \in Keys2, y \in Keys2}
              \cup {<<x, y, z>> : x \in Keys2, y \in Keys2, z \in Keys2}
GetOne == {AB}
Menu8 == { <<A, V1>>, <<A, NullV>>, <<A, MB1>>, <<A, MBN>>, <<AB, V2>>, <<AB, NullV>>, <<ABC, V1>>, <<B, V1>> }
MenuSmall == { <<A, V1>>, <<A, NullV>>, <<A, MBN>>, <<AB, V2>>, <<AB, NullV>>, <<ABC, V1>>, <<B, V1>> }
\* simulation / T->I menu: every path over {a,b,c} up to depth 3 x a pool of values, total depth <= 3
MAN == Mp("a" :> NullV)
MAA1 == Mp("a" :> Mp("a" :> V1))
MA1BS == Mp(("a" :> V1) @@ ("b" :> VS))
MAEMPTY == Mp("a" :> EmptyMap)
Pool == {V1, V2, VS, NullV, EmptyMap, MB1, MBN, MC2, MBC1, MB1CN, MAN, MAA1, MA1BS, MAEMPTY}
RECURSIVE Depth(_)
Max(S) == CHOOSE x \in S : \A y \in S : y <= x
Depth(x) == IF x.t = "l" THEN 0 ELSE 1 + Max({0} \cup {Depth(x.m[k]) : k \in DOMAIN x.m})
MenuSim == {e \in (PathsUpTo3 \ {<<>>}) \X Pool : Len(e[1]) + Depth(e[2]) <= 3}

\* simulation only: the same actions as Next, each step drawing a few random menu entries, so that one
\* simulation step does not have to build the ~2400 Set successors of the full menu
SimNext ==
    \/ \E t \in Txns : Begin(t) \/ Commit(t)
    \/ \E t \in Txns, s \in Snaps, e \in RandomSubset(6, SetMenu) : Set(t, s, e[1], e[2])
    \/ \E t \in Txns, s \in Snaps, p \in RandomSubset(2, GetPaths) : Get(t, s, p)
    \/ \E s \in Snaps, r \in Revs : SaveRev(s, r) \/ RestoreRev(s, r) \/ DiscardRev(s, r)

CONSTANTS t1, t2
TxnSym == Permutations({t1, t2})
=============================================================================
