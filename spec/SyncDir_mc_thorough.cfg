\* C23 thorough: 3 managed names (model values, symmetric) + 1 unmanaged, all entry kinds, <=1 faulty desired entry
SPECIFICATION Spec
CONSTANTS
  m1 = m1
  m2 = m2
  m3 = m3
  Managed = {m1, m2, m3}
  Unmanaged = {"u1"}
  Contents = {"a", "b"}
  Perms = {"644", "600"}
  LinkTargets = {"u1", "nx"}
  BadKinds = {"missing"}
  UnmanagedTok = {"none", "f:a:644", "f:b:600", "ndir"}
  DesExtra = {}
  MaxBad = 1
SYMMETRY SymManaged
INVARIANTS TypeOK Post NeverTouchUnmanaged EraseForgets
PROPERTY StepInSucc
CHECK_DEADLOCK FALSE
