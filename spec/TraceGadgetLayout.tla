--------------------------- MODULE TraceGadgetLayout ---------------------------
(* C38 T->I table: evaluate the reference validation and layout of GadgetLayout at the REAL constants
   (MinStart = 1 MiB, MbrMax = 446, PtrSize = 4; quantities in bytes) on the volumes chosen by the check
   (IOEnv.VERIF_TRACE, NDJSON, one volume record per line in the vocabulary of GadgetLayout) and write one
   result per case to IOEnv.VERIF_OUT.  The Go driver runs the real gadget.InfoFromGadgetYaml /
   gadget.LayoutVolume on the gadget.yaml rendering of the same volumes; props/_gadgetlayout.py compares.
   `holds` is the statement evaluated on the reference layout (design check on exactly the cases that are run
   on the real code). *)
EXTENDS GadgetLayout, IOUtils, Json

Cases == ndJsonDeserialize(IOEnv.VERIF_TRACE)

Result(v) ==
    LET e  == Eval(v)
        ss == e.ordered
        L  == e.layout
    IN [valid    |-> e.valid,
        layoutok |-> e.layoutok,
        ordered  |-> [i \in 1..Len(ss) |-> [idx |-> ss[i].idx, off |-> ss[i].off, min |-> ss[i].min]],
        layout   |-> [i \in 1..Len(L) |-> [idx |-> L[i].idx, start |-> L[i].start, size |-> L[i].size,
                                           content |-> [k \in 1..Len(L[i].content) |->
                                                           [start |-> L[i].content[k].start,
                                                            size  |-> L[i].content[k].size]]]],
        holds    |-> Holds(L)]

ASSUME JsonSerialize(IOEnv.VERIF_OUT, [i \in 1..Len(Cases) |-> Result(Cases[i])])

TInit == vol = [partial |-> FALSE, structs |-> << >>] /\ accepted = FALSE /\ lay = << >>
TNext == FALSE /\ UNCHANGED vars
=============================================================================
