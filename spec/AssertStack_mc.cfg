SPECIFICATION Spec
CONSTANTS
  MaxDepth = 3
  MaxRev = 4
  MaxOps = 5
INVARIANTS LayersMonotone LookupIsHighest AcceptSound
CHECK_DEADLOCK FALSE
