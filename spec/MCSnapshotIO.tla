---------------------------- MODULE MCSnapshotIO ----------------------------
(* Alphabets for the exhaustive configs of SnapshotIO.tla.  props/_snapshotio.py parses these  *)
(* definitions (one per line) so that the real-code cases are drawn from the SAME alphabets.   *)
EXTENDS SnapshotIO

QKeys == {"a.zip", "b", "d", "..", "importing"}
QBefores == {<<>>, <<"p">>, <<"..">>, <<"", "p">>}
QAfters == {<<>>, <<"..", "..", "x">>, <<"f.zip">>, <<"..">>, <<"f.zip", "..">>, <<"..", "f.zip">>}
QTypes == {"reg", "dir", "symlink"}
QBodies == {"zip", "trunc", "garbage", "empty"}
QREntries == {{"sys"}, {"sys", "usr"}}
QPreClasses == {"absent", "old", "blocked"}
QCorruptions == {"none", "hash"}

TKeys == {"a.zip", "b", "d", "..", "", "importing"}
TBefores == {<<>>, <<"p">>, <<"..">>, <<"", "p">>, <<"p", "..">>}
TAfters == {<<>>, <<"..", "..", "x">>, <<"f.zip">>, <<"..">>, <<".">>, <<"f.zip", "..">>, <<"..", "f.zip">>, <<"..", "..">>}
TTypes == {"reg", "dir", "symlink"}
TBodies == {"zip", "trunc", "garbage", "empty"}
TREntries == {{"sys"}, {"sys", "usr"}}
TPreClasses == {"absent", "old", "blocked", "oldfile"}
TCorruptions == {"none", "hash", "tar", "size"}
=============================================================================
