SPECIFICATION Spec
CONSTANTS
    MaxRev = 4
    MaxOps = 4
    InstallRevs <- Rev1
    AttrOpts <- AttrPlain
    RetainOpts <- Ret2
    CfgOpts <- Cfg0
    OnClassicOpts <- BoolF
    BootOpts <- Boot12
    KernelOpts <- BoolT
    OpFaults = FALSE
INVARIANTS
    TypeOK
    C11_Consistent
    C10_Restored
    C10_BlockRestored
    C12_Retain
    C13_Revert
    C13_RevertPre
CONSTRAINT StateConstraint
CHECK_DEADLOCK FALSE
