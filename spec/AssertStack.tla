--------------------------- MODULE AssertStack ---------------------------
(* C18, part 2 -- the signing key is judged per the HIGHEST REVISION of its account-key visible to
   the database that checks, also when that database is a STACK of backstores.

   asserts.Database.WithStackedBackstore(bs) builds a database that adds to `bs` only but finds in
   trusted, predefined, `bs`, and then the backstores of the database it was stacked on, NEWEST LAYER
   FIRST (database.go: WithStackedBackstore, findAccountKey, find; Batch precheck/CommitTo stack one
   more temporary layer).  Add at the top refuses a revision <= the one visible below, so walking the
   layers newest-first and taking the first hit yields the highest visible revision.

   State: `layers`, a sequence of backstore layers (1 = the base database's backstore); each layer
   holds at most one revision of the account-key of the key under test K (of account "auth"):
   [rev, kind], kind in
     "valid"        since <= now, no until, no constraints
     "expired"      until <= now (revoked)
     "constrained"  constraints that do not admit the assertion
     "validcons"    constraints that admit the assertion
   Database handle d (1 <= d <= Len(layers)) sees layers 1..d.

   Actions: Stack (WithStackedBackstore on the top handle), AddKey(kind) (Database.Add of the next
   revision of the account-key through the TOP handle).  The verdict of Check / Add / Batch precheck /
   a fresh WithStackedBackstore + Check of an assertion signed with K through handle d is a function
   of the state: Verdict(layers, d).  TLC explores the whole state machine (AcceptSound,
   LayersMonotone) and module AssertStackTable exports every history of <= MaxOps actions with the
   verdict per handle after the last action; the binding (zz_verif_assertstack_test.go) replays each
   history on real stacked databases with real keys and compares. *)
EXTENDS Integers, Sequences, FiniteSets, TLC

CONSTANTS MaxDepth,   \* number of layers (base + stacked ones)
          MaxRev,     \* account-key revisions 0..MaxRev
          MaxOps      \* length of exported histories

Kinds == {"valid", "expired", "constrained", "validcons"}
NoKey == [rev |-> -1, kind |-> "none"]
Ops == {"stack"} \cup {"key-" \o k : k \in Kinds}
KindOf(op) == CHOOSE k \in Kinds : op = "key-" \o k

MaxI(S) == CHOOSE x \in S : \A y \in S : y <= x

(* what handle d finds for key K: newest layer first, first hit (findAccountKey) *)
Visible(ls, d) == LET idx == {i \in 1..d : ls[i] # NoKey}
                  IN IF idx = {} THEN NoKey ELSE ls[MaxI(idx)]
(* the highest revision among the layers handle d sees (the oracle of the statement) *)
Highest(ls, d) == LET idx == {i \in 1..d : ls[i] # NoKey}
                  IN IF idx = {} THEN NoKey
                     ELSE ls[CHOOSE i \in idx : \A j \in idx : ls[j].rev <= ls[i].rev]

KeyOK(k) == k.kind \in {"valid", "validcons"}
Verdict(ls, d) == LET k == Visible(ls, d)
                  IN CASE k = NoKey -> "reject:nokey"
                       [] k.kind = "expired" -> "reject:expired"
                       [] k.kind = "constrained" -> "reject:constraints"
                       [] OTHER -> "accept"

(* pure transition functions (shared by the actions and by the exported histories) *)
Enabled(ls, op) == IF op = "stack" THEN Len(ls) < MaxDepth
                   ELSE Highest(ls, Len(ls)).rev + 1 <= MaxRev
Apply(ls, op) == IF op = "stack" THEN Append(ls, NoKey)
                 ELSE [ls EXCEPT ![Len(ls)] = [rev |-> Highest(ls, Len(ls)).rev + 1, kind |-> KindOf(op)]]

VARIABLE layers
Init == layers = <<NoKey>>
Stack == Enabled(layers, "stack") /\ layers' = Apply(layers, "stack")
AddKey(k) == Enabled(layers, "key-" \o k) /\ layers' = Apply(layers, "key-" \o k)
Next == Stack \/ \E k \in Kinds : AddKey(k)
Spec == Init /\ [][Next]_layers

----------------------------------------------------------------------------
(* revisions grow upward, so newest-first lookup = highest revision *)
LayersMonotone == \A i, j \in 1..Len(layers) :
                     (i < j /\ layers[i] # NoKey /\ layers[j] # NoKey) => layers[i].rev < layers[j].rev
LookupIsHighest == \A d \in 1..Len(layers) : Visible(layers, d) = Highest(layers, d)
(* the statement: accepted => the signing key exists, and per the highest revision visible to the
   checking database it is valid now and its constraints admit the assertion *)
AcceptSound == \A d \in 1..Len(layers) :
                  Verdict(layers, d) = "accept" =>
                      (Highest(layers, d) # NoKey /\ KeyOK(Highest(layers, d)))
(* vacuity helper: some reachable state has a bad newer revision above a good older one, seen from depth >= 2 *)
ShadowCase(ls) == \E d \in 2..Len(ls) : \E i \in 1..(d-1) :
                     /\ ls[i] # NoKey /\ KeyOK(ls[i])
                     /\ Highest(ls, d) # NoKey /\ ~KeyOK(Highest(ls, d)) /\ Highest(ls, d).rev > ls[i].rev

----------------------------------------------------------------------------
(* all histories of exactly n enabled actions: set of <<ops, final layers>> *)
RECURSIVE Hist(_)
Hist(n) == IF n = 0 THEN {<<<<>>, <<NoKey>>>>}
           ELSE LET en == {x \in Hist(n - 1) \X Ops : Enabled(x[1][2], x[2])}
                IN {<<Append(x[1][1], x[2]), Apply(x[1][2], x[2])>> : x \in en}
AllHist == UNION {Hist(n) : n \in 1..MaxOps}
=============================================================================
