------------------------------- MODULE Aliases -------------------------------
(***************************************************************************)
(* E02 -- the aliases state machine of overlord/snapstate.                 *)
(*                                                                         *)
(* Transcription of aliasesv2.go (AliasTarget.Effective,                   *)
(* applyAliasesChange, refreshAliases, checkAliasesConflicts,              *)
(* checkSnapAliasConflict, disableAliases, reenableAliases,                *)
(* pruneAutoAliases, manualAlias, manualUnalias, autoAliasesDelta), of the *)
(* alias task handlers of handlers.go (do/undo of set-auto-aliases,        *)
(* setup-aliases, remove-aliases, refresh-aliases, prune-auto-aliases,     *)
(* alias, unalias, disable-aliases, prefer-aliases; undoRefreshAliases is  *)
(* the shared undo), of the task generation in snapstate.go (Alias,        *)
(* RemoveManualAlias, DisableAllAliases, Prefer, doInstall, removeTasks,   *)
(* autoAliasesUpdate/applyAutoAliasesDelta incl. lanes and waits) and of   *)
(* backend.UpdateAliases / RemoveSnapAliases (symlink semantics: removal   *)
(* is by alias NAME, addition overwrites).                                 *)
(*                                                                         *)
(* Grain: one step per task handler (handlers run under the state lock).   *)
(* The task engine is the small part of overlord/state needed here: wait   *)
(* sets, lanes, abort closure (Change.abortLanes/abortTasks), undo when    *)
(* all halted tasks are ready.  Tasks that do not touch aliases are "nop". *)
(*                                                                         *)
(* World:                                                                  *)
(*   inst[s]  snap s is in the "snaps" state                               *)
(*   rec[s]   [dis |-> AutoAliasesDisabled, pend |-> AliasesPending,       *)
(*             al |-> alias name -> [m |-> Manual, a |-> Auto]   ("" = no) *)
(*             act |-> Active]                                             *)
(*   sys[n]   what alias n is on the system: [s |-> snap, a |-> app]       *)
(*   decl[s]  auto-aliases of the current snap-declaration of s            *)
(* History: pre (world when the running change was requested), mon (the    *)
(* verdicts of properties (c) and (d), computed when a change settles).    *)
(***************************************************************************)
EXTENDS Integers, FiniteSets, Sequences, TLC

CONSTANTS Snaps,        \* snap instance names (strings); the op-fault indexing assumes exactly two
          Names,        \* alias names (strings); a name equal to a snap name exercises the namespace checks
          Apps,         \* applications (non-daemon, present in every revision)
          AutoApps,     \* applications the snap-declaration may name as auto-alias targets
          OpKinds,      \* request kinds explored
          InstallFlags, \* subset of {"plain", "unaliased", "prefer"}
          FaultModes,   \* subset of {"entry", "op1", "op2"}
          InitInst,     \* snaps installed initially (no aliases)
          RAAUX,        \* experimental refresh-app-awareness(-ux): remove-aliases is skipped on refresh
          LateRemoveFaults, \* explore faults at discard-snap, i.e. after clear-snap removed the snap's data (finding F2)
          MaxOps        \* bound on requests per history (0 = unbounded)

None     == ""
NoEnt    == [m |-> None, a |-> None]
NoTgt    == [s |-> None, a |-> None]
EmptyAl  == [n \in Names |-> NoEnt]
EmptyRec == [dis |-> FALSE, pend |-> FALSE, al |-> EmptyAl, act |-> FALSE]
NoDecl   == [n \in Names |-> None]

VARIABLES inst, rec, sys, decl, chg, pre, mon, nops
world == <<inst, rec, sys>>
vars  == <<inst, rec, sys, decl, chg, pre, mon, nops>>

CurW == [inst |-> inst, rec |-> rec, sys |-> sys]

(***************************************************************************)
(* aliasesv2.go -- pure parts                                              *)
(***************************************************************************)
\* AliasTarget.Effective
Eff(e, dis) == IF e.m # None THEN e.m ELSE IF ~dis THEN e.a ELSE None

\* applyAliasesChange + backend.UpdateAliases: names whose effective target changes are removed (by name) and/or
\* (re)created pointing at the new target
UpdateAliases(sy, s, pDis, pAl, nDis, nAl) ==
    [n \in Names |->
        LET p == Eff(pAl[n], pDis)
            q == Eff(nAl[n], nDis)
        IN  IF p = q THEN sy[n] ELSE IF q # None THEN [s |-> s, a |-> q] ELSE NoTgt]

\* backend.RemoveSnapAliases: every alias whose target is an app of s
RemoveSnapAl(sy, s) == [n \in Names |-> IF sy[n].s = s THEN NoTgt ELSE sy[n]]

Apply(W, s, pDis, pAl, nDis, nAl) == [W EXCEPT !.sys = UpdateAliases(W.sys, s, pDis, pAl, nDis, nAl)]

RefreshAl(d, al) == [n \in Names |-> [m |-> al[n].m, a |-> d[n]]]          \* refreshAliases (all apps exist)
DisableAl(al)    == [n \in Names |-> [m |-> None, a |-> al[n].a]]          \* disableAliases
ManualOf(al)     == [n \in Names |-> al[n].m]
PruneAl(al, wh)  == [n \in Names |-> IF n \in wh THEN [m |-> al[n].m, a |-> None] ELSE al[n]]
ReenableAl(al, man) == [n \in Names |-> IF man[n] # None THEN [m |-> man[n], a |-> al[n].a] ELSE al[n]]

\* `changing`: about-to-be-set states considered by checkAliasesConflicts
NoChanging == [on |-> [o \in Snaps |-> FALSE], rec |-> [o \in Snaps |-> EmptyRec]]
RecOf(W, ch, o) == IF ch.on[o] THEN ch.rec[o] ELSE W.rec[o]

\* checkAliasesConflicts: command namespace of an installed snap ...
NsConflict(W, dis, al) == \E n \in Names : Eff(al[n], dis) # None /\ n \in Snaps /\ W.inst[n]
\* ... and enabled aliases of the other installed snaps
ConflSnaps(W, s, dis, al, ch) ==
    {o \in Snaps \ {s} : W.inst[o] /\ \E n \in Names :
        Eff(al[n], dis) # None /\ Eff(RecOf(W, ch, o).al[n], RecOf(W, ch, o).dis) # None}
CheckConfl(W, s, dis, al, ch) == NsConflict(W, dis, al) \/ ConflSnaps(W, s, dis, al, ch) # {}

\* checkSnapAliasConflict (install): an enabled alias named like the snap
SnapNameTaken(W, s) == \E o \in Snaps, n \in Names : W.inst[o] /\ n = s /\ Eff(W.rec[o].al[n], W.rec[o].dis) # None

\* autoAliasesDelta
Changed(W, D, s) == IF W.inst[s] THEN {n \in Names : D[s][n] # None /\ W.rec[s].al[n].a # D[s][n]} ELSE {}
Dropped(W, D, s) == IF W.inst[s] THEN {n \in Names : W.rec[s].al[n].a # None /\ D[s][n] = None} ELSE {}

(***************************************************************************)
(* Tasks                                                                   *)
(***************************************************************************)
AliasKinds == {"set-auto-aliases", "setup-aliases", "remove-aliases", "refresh-aliases", "prune-auto-aliases",
               "alias", "unalias", "disable-aliases", "prefer-aliases"}

\* anc: ALL tasks this one (transitively) waits for
Task(k, s, anc, lane) == [k |-> k, s |-> s, anc |-> anc, lane |-> lane, n |-> None, app |-> None, which |-> {}, flag |-> None]

NoOther == [on |-> FALSE, auto |-> FALSE, man |-> [n \in Names |-> None]]
\* what a handler leaves in its task for undo: old-aliases-v2 (has/oldAl), old-auto-aliases-disabled (hasDis/oldDis),
\* prune-old-aliases, old-aliases-pruned, other-disabled-aliases
NoSaved == [has |-> FALSE, oldAl |-> EmptyAl, hasDis |-> FALSE, oldDis |-> FALSE, prune |-> FALSE, pruned |-> FALSE,
            others |-> [o \in Snaps |-> NoOther]]

Ok(W, sv) == [ok |-> TRUE, W |-> W, sv |-> sv]
Bad(W)    == [ok |-> FALSE, W |-> W, sv |-> NoSaved]
SavedAl(al) == [NoSaved EXCEPT !.has = TRUE, !.oldAl = al]

\* -- do handlers: (task, world, declarations, change) -> [ok, W, sv] ------------------------------------------
DoAlias(t, W) ==
    LET cur == W.rec[t.s]
        new == [cur.al EXCEPT ![t.n].m = t.app]
    IN  IF t.app \notin Apps \/ CheckConfl(W, t.s, cur.dis, new, NoChanging) THEN Bad(W)
        ELSE Ok([(IF cur.pend THEN W ELSE Apply(W, t.s, cur.dis, cur.al, cur.dis, new)) EXCEPT !.rec[t.s].al = new],
                SavedAl(cur.al))

DoUnalias(t, W) ==
    LET cur == W.rec[t.s]
        new == [cur.al EXCEPT ![t.n].m = None]
    IN  IF cur.al[t.n] = NoEnt THEN Bad(W)
        ELSE Ok([(IF cur.pend THEN W ELSE Apply(W, t.s, cur.dis, cur.al, cur.dis, new)) EXCEPT !.rec[t.s].al = new],
                SavedAl(cur.al))

DoDisable(t, W) ==
    LET cur == W.rec[t.s]
        new == DisableAl(cur.al)
    IN  Ok([(IF cur.pend THEN W ELSE Apply(W, t.s, cur.dis, cur.al, TRUE, new))
                EXCEPT !.rec[t.s].al = new, !.rec[t.s].dis = TRUE],
           [SavedAl(cur.al) EXCEPT !.hasDis = TRUE, !.oldDis = cur.dis])

\* the (at most one, with two snaps) snap whose aliases prefer-aliases disables
PreferOther(t, W) == ConflSnaps(W, t.s, FALSE, W.rec[t.s].al, NoChanging)
PreferDisableOther(W, o) ==
    LET oc  == W.rec[o]
        oal == DisableAl(oc.al)
    IN  [(IF oc.pend THEN W ELSE Apply(W, o, oc.dis, oc.al, TRUE, oal))
            EXCEPT !.rec[o].al = oal, !.rec[o].dis = (oc.dis \/ oal # EmptyAl)]
DoPrefer(t, W) ==
    LET cur == W.rec[t.s]
        os  == PreferOther(t, W)
    IN  IF ~cur.dis THEN Ok(W, NoSaved)                                   \* already enabled, nothing to do
        ELSE IF NsConflict(W, FALSE, cur.al) THEN Bad(W)
        ELSE LET o  == CHOOSE x \in os : TRUE
                 W1 == IF os = {} THEN W ELSE PreferDisableOther(W, o)
                 W2 == IF cur.pend THEN W1 ELSE Apply(W1, t.s, TRUE, cur.al, FALSE, cur.al)
                 sv == [SavedAl(cur.al) EXCEPT !.hasDis = TRUE, !.oldDis = TRUE,
                            !.others = [x \in Snaps |-> IF x \in os
                                THEN [on |-> TRUE,
                                      auto |-> ~W.rec[x].dis /\ DisableAl(W.rec[x].al) # EmptyAl,
                                      man |-> ManualOf(W.rec[x].al)]
                                ELSE NoOther]]
             IN  Ok([W2 EXCEPT !.rec[t.s].dis = FALSE], sv)

DoRefreshAliases(t, W, D) ==
    LET cur == W.rec[t.s]
        new == RefreshAl(D[t.s], cur.al)
    IN  IF CheckConfl(W, t.s, cur.dis, new, NoChanging) THEN Bad(W)
        ELSE Ok([(IF cur.pend THEN W ELSE Apply(W, t.s, cur.dis, cur.al, cur.dis, new)) EXCEPT !.rec[t.s].al = new],
                SavedAl(cur.al))

DoPrune(t, W) ==
    LET cur == W.rec[t.s]
        new == PruneAl(cur.al, t.which)
    IN  Ok([(IF cur.pend THEN W ELSE Apply(W, t.s, cur.dis, cur.al, cur.dis, new)) EXCEPT !.rec[t.s].al = new],
           SavedAl(cur.al))

DoSetAuto(t, W, D) ==
    LET cur  == W.rec[t.s]
        flg  == t.flag \in {"unaliased", "prefer"}
        dis1 == IF flg THEN TRUE ELSE cur.dis
        new  == RefreshAl(D[t.s], cur.al)
    IN  IF CheckConfl(W, t.s, dis1, new, NoChanging) THEN Bad(W)
        ELSE Ok([W EXCEPT !.rec[t.s] = [cur EXCEPT !.dis = dis1, !.pend = TRUE, !.al = new]],
                [SavedAl(cur.al) EXCEPT !.hasDis = flg, !.oldDis = cur.dis, !.prune = ~cur.pend])

SkipRemove(t) == RAAUX /\ t.flag = "refresh"
DoRemoveAliases(t, W) ==
    IF SkipRemove(t) THEN Ok(W, NoSaved)
    ELSE Ok([W EXCEPT !.sys = RemoveSnapAl(W.sys, t.s), !.rec[t.s].pend = TRUE], NoSaved)

\* shouldPruneOldAliases: the finished set-auto-aliases task of the same snap this task waits for
SetAutoOf(t, C) == {j \in t.anc : C.tasks[j].k = "set-auto-aliases" /\ C.tasks[j].s = t.s /\ C.status[j] = "done"}
DoSetup(t, W, C) ==
    LET cur   == W.rec[t.s]
        js    == SetAutoOf(t, C)
        sv    == IF js = {} THEN NoSaved ELSE C.saved[CHOOSE j \in js : TRUE]
        prune == sv.prune
        oAl   == IF prune THEN sv.oldAl ELSE EmptyAl
        oDis  == IF prune THEN (IF sv.hasDis THEN sv.oldDis ELSE cur.dis) ELSE TRUE
    IN  Ok([Apply(W, t.s, oDis, oAl, cur.dis, cur.al) EXCEPT !.rec[t.s].pend = FALSE],
           [NoSaved EXCEPT !.pruned = prune])

DoLink(t, W)    == Ok([W EXCEPT !.inst[t.s] = TRUE, !.rec[t.s] = [EmptyRec EXCEPT !.act = TRUE]], NoSaved)  \* link-snap of an install
DoUnlink(t, W)  == Ok([W EXCEPT !.rec[t.s].act = FALSE], NoSaved)                          \* unlink-snap of a remove
DoDiscard(t, W) == Ok([W EXCEPT !.inst[t.s] = FALSE, !.rec[t.s] = EmptyRec], NoSaved)     \* discard-snap (last revision)

DoTask(t, W, D, C) ==
    CASE t.k = "alias"              -> DoAlias(t, W)
      [] t.k = "unalias"            -> DoUnalias(t, W)
      [] t.k = "disable-aliases"    -> DoDisable(t, W)
      [] t.k = "prefer-aliases"     -> DoPrefer(t, W)
      [] t.k = "refresh-aliases"    -> DoRefreshAliases(t, W, D)
      [] t.k = "prune-auto-aliases" -> DoPrune(t, W)
      [] t.k = "set-auto-aliases"   -> DoSetAuto(t, W, D)
      [] t.k = "remove-aliases"     -> DoRemoveAliases(t, W)
      [] t.k = "setup-aliases"      -> DoSetup(t, W, C)
      [] t.k = "link-snap"          -> DoLink(t, W)
      [] t.k = "unlink-snap"        -> DoUnlink(t, W)
      [] t.k = "discard-snap"       -> DoDiscard(t, W)
      [] OTHER                      -> Ok(W, NoSaved)

\* number of backend alias operations (UpdateAliases / RemoveSnapAliases calls) the do handler performs
NBackendOps(t, W, D, C) ==
    LET r == DoTask(t, W, D, C)
        p == W.rec[t.s].pend
    IN  IF ~r.ok THEN 0
        ELSE CASE t.k \in {"alias", "unalias", "disable-aliases", "refresh-aliases", "prune-auto-aliases"} -> IF p THEN 0 ELSE 1
               [] t.k = "remove-aliases" -> IF SkipRemove(t) THEN 0 ELSE 1
               [] t.k = "setup-aliases"  -> 1
               [] t.k = "prefer-aliases" ->
                     IF ~W.rec[t.s].dis THEN 0
                     ELSE Cardinality({o \in PreferOther(t, W) : ~W.rec[o].pend}) + (IF p THEN 0 ELSE 1)
               [] OTHER -> 0

\* world left behind when the j-th backend operation of the handler fails (the handler returns before storing
\* any state): only prefer-aliases performs more than one operation
AfterFailedOp(t, W, j) ==
    IF t.k = "prefer-aliases" /\ j = 2
    THEN LET o == CHOOSE x \in PreferOther(t, W) : TRUE IN [W EXCEPT !.sys = PreferDisableOther(W, o).sys]
    ELSE W

\* -- undo handlers -------------------------------------------------------------------------------------------
\* undoRefreshAliases: shared by set-auto-aliases, refresh-aliases, prune-auto-aliases, alias, unalias,
\* disable-aliases, prefer-aliases
UndoGeneric(t, sv, W) ==
    IF ~sv.has THEN W
    ELSE
    LET s     == t.s
        cur   == W.rec[s]
        dis0  == IF sv.hasDis THEN sv.oldDis ELSE cur.dis
        confl == CheckConfl(W, s, dis0, sv.oldAl, NoChanging)   \* "best we can do is reinstate with all aliases disabled"
        oldAl == IF confl THEN DisableAl(sv.oldAl) ELSE sv.oldAl
        dis1  == IF confl THEN TRUE ELSE dis0
        pend1 == IF cur.pend /\ t.k = "set-auto-aliases" /\ sv.prune THEN FALSE ELSE cur.pend
        W1    == IF ~pend1 THEN Apply(W, s, cur.dis, cur.al, dis1, oldAl) ELSE W
        newS  == [cur EXCEPT !.dis = dis1, !.pend = pend1, !.al = oldAl]
        ch    == [on |-> [o \in Snaps |-> o = s], rec |-> [o \in Snaps |-> newS]]
        os    == {o \in Snaps : sv.others[o].on}
        oDis(o) == IF sv.others[o].auto THEN FALSE ELSE W.rec[o].dis
        oAl(o)  == ReenableAl(W.rec[o].al, sv.others[o].man)
        oBad(o) == CheckConfl(W, o, oDis(o), oAl(o), ch)
        sBad    == \E o \in os : oBad(o) /\ s \in ConflSnaps(W, o, oDis(o), oAl(o), ch)
        sysO(sy, o) == IF oBad(o) \/ W.rec[o].pend THEN sy
                       ELSE UpdateAliases(sy, o, W.rec[o].dis, W.rec[o].al, oDis(o), oAl(o))
        o1    == CHOOSE x \in os : TRUE
        sys2  == IF os = {} THEN W1.sys ELSE sysO(W1.sys, o1)
    IN  [W1 EXCEPT !.sys = sys2,
                   !.rec = [o \in Snaps |->
                        IF o = s THEN (IF sBad THEN cur ELSE newS)
                        ELSE IF o \in os /\ ~oBad(o) THEN [W.rec[o] EXCEPT !.dis = oDis(o), !.al = oAl(o)]
                        ELSE W.rec[o]]]

UndoSetup(t, sv, W) ==
    IF sv.pruned THEN W
    ELSE [W EXCEPT !.sys = RemoveSnapAl(W.sys, t.s), !.rec[t.s].pend = TRUE]

UndoRemoveAliases(t, W) ==
    LET cur == W.rec[t.s]
    IN  IF ~cur.pend THEN W
        ELSE [Apply(W, t.s, TRUE, EmptyAl, cur.dis, cur.al) EXCEPT !.rec[t.s].pend = FALSE]

\* undoUnlinkSnap: "a later clear-snap task could have been executed and some or all of the data of this snap could
\* be lost. If that's the case, then we should not enable the snap back"
ClearRan(C, s) == \E j \in 1..Len(C.tasks) : C.tasks[j].k = "clear-snap" /\ C.tasks[j].s = s /\ C.status[j] \in {"done", "undo", "undone"}

UndoTask(t, sv, W, C) ==
    CASE t.k \in {"alias", "unalias", "disable-aliases", "prefer-aliases", "refresh-aliases", "prune-auto-aliases",
                  "set-auto-aliases"}  -> UndoGeneric(t, sv, W)
      [] t.k = "setup-aliases"         -> UndoSetup(t, sv, W)
      [] t.k = "remove-aliases"        -> UndoRemoveAliases(t, W)
      [] t.k = "link-snap"             -> [W EXCEPT !.inst[t.s] = FALSE, !.rec[t.s] = EmptyRec]
      [] t.k = "unlink-snap"           -> [W EXCEPT !.rec[t.s].act = ~ClearRan(C, t.s)]
      [] OTHER                         -> W

(***************************************************************************)
(* Requests -> task chains (snapstate.go)                                  *)
(***************************************************************************)
RECURSIVE SeqOf(_)
SeqOf(S) == IF S = {} THEN <<>> ELSE LET x == CHOOSE y \in S : TRUE IN <<x>> \o SeqOf(S \ {x})

Op(kind, s, app, n, flag) == [kind |-> kind, s |-> s, app |-> app, n |-> n, flag |-> flag]

\* a linear chain of kinds for snap s in `lane`, every task waiting for everything before it and for `base`
Linear(ks, s, lane, off, base, flag) ==
    [i \in 1..Len(ks) |-> [Task(ks[i], s, {off + j : j \in 1..(i - 1)} \cup base, lane)
                              EXCEPT !.flag = IF ks[i] \in {"set-auto-aliases", "remove-aliases"} THEN flag ELSE None]]

PruneTasks(W, D, S) ==
    LET q == SeqOf(S) IN [i \in 1..Len(q) |-> [Task("prune-auto-aliases", q[i], {}, 0) EXCEPT !.which = Dropped(W, D, q[i])]]

\* request refused at the entry point (nothing is created)
Refused(op, W, D) ==
    CASE op.kind \in {"alias", "disable", "prefer", "remove"} -> ~W.inst[op.s]
      [] op.kind = "refresh" -> ~W.inst[op.s] \/ ~W.rec[op.s].act          \* "refreshing disabled snap not supported"
      [] op.kind = "unalias" -> ~\E s \in Snaps : W.inst[s] /\ W.rec[s].al[op.n].m # None
      [] op.kind = "install" -> W.inst[op.s] \/ SnapNameTaken(W, op.s)
      [] op.kind = "refreshdecl" -> \A s \in Snaps : Changed(W, D, s) = {} /\ Dropped(W, D, s) = {}
      [] OTHER -> TRUE

\* the set of chains a request may produce (unalias: Go map order decides among several owners)
Chains(op, W, D) ==
    CASE op.kind = "alias"   -> {<<[Task("alias", op.s, {}, 0) EXCEPT !.n = op.n, !.app = op.app]>>}
      [] op.kind = "unalias" -> {<<[Task("unalias", s, {}, 0) EXCEPT !.n = op.n]>> :
                                    s \in {x \in Snaps : W.inst[x] /\ W.rec[x].al[op.n].m # None}}
      [] op.kind = "disable" -> {<<Task("disable-aliases", op.s, {}, 0)>>}
      [] op.kind = "prefer"  -> {<<Task("prefer-aliases", op.s, {}, 0)>>}
      [] op.kind = "install" ->
            {Linear(IF op.flag = "prefer"
                    THEN <<"link-snap", "set-auto-aliases", "setup-aliases", "prefer-aliases", "nop">>
                    ELSE <<"link-snap", "set-auto-aliases", "setup-aliases", "nop">>, op.s, 0, 0, {}, op.flag)}
      [] op.kind = "remove"  ->
            \* removeTasks: remove-aliases and unlink-snap only for an active snap
            {Linear(IF W.rec[op.s].act THEN <<"remove-aliases", "unlink-snap", "clear-snap", "discard-snap">>
                                       ELSE <<"clear-snap", "discard-snap">>, op.s, 0, 0, {}, "remove")}
      [] op.kind = "refresh" ->
            \* autoAliasesUpdate with requested = {op.s}: sources of aliases transferred to op.s are pruned first
            LET src == {o \in Snaps \ {op.s} : Dropped(W, D, o) \cap Changed(W, D, op.s) # {}}
                pr  == PruneTasks(W, D, src)
                p   == Len(pr)
            IN  {pr \o Linear(<<"remove-aliases", "nop", "set-auto-aliases", "setup-aliases", "nop">>,
                              op.s, 1, p, 1..p, "refresh")}
      [] op.kind = "refreshdecl" ->
            \* refresh-all without new revisions: prune every dropped auto-alias, then refresh-aliases of the changed
            LET prS == {o \in Snaps : Dropped(W, D, o) # {}}
                chS == {s \in Snaps : Changed(W, D, s) # {}}
                pr  == PruneTasks(W, D, prS)
                p   == Len(pr)
                tt(s) == \E n \in Changed(W, D, s), o \in Snaps : n \in Dropped(W, D, o)
                cq  == SeqOf(chS)
            IN  {pr \o [i \in 1..Len(cq) |->
                          Task("refresh-aliases", cq[i], IF cq[i] \in prS \/ tt(cq[i]) THEN 1..p ELSE {}, 0)]}

(***************************************************************************)
(* Task engine                                                             *)
(***************************************************************************)
NoFault == [idx |-> 0, mode |-> "none"]
Idle    == [kind |-> "none", tasks |-> <<>>, status |-> <<>>, saved |-> <<>>, fault |-> NoFault]
IsIdle  == chg.kind = "none"

\* Change.abortLanes/abortTasks: the lanes of the failed task, everything that waits for an aborted task, and
\* the lanes of those
RECURSIVE AbortClosure(_, _)
AbortClosure(ts, A) ==
    LET B == A \cup {j \in 1..Len(ts) : \E i \in A : ts[j].lane = ts[i].lane \/ i \in ts[j].anc}
    IN  IF B = A THEN A ELSE AbortClosure(ts, B)

Aborted(C, i) ==
    LET A == AbortClosure(C.tasks, {i})
    IN  [j \in 1..Len(C.tasks) |->
            IF j = i THEN "error"
            ELSE IF j \in A /\ C.status[j] = "do" THEN "hold"
            ELSE IF j \in A /\ C.status[j] = "done" THEN "undo"
            ELSE C.status[j]]

Ready(st) == st \in {"done", "undone", "error", "hold"}
CanDo(C, i)   == C.status[i] = "do" /\ \A j \in C.tasks[i].anc : C.status[j] = "done"
CanUndo(C, i) == C.status[i] = "undo" /\ \A k \in 1..Len(C.tasks) : i \in C.tasks[k].anc => Ready(C.status[k])
Settled(C)    == \A i \in 1..Len(C.tasks) : Ready(C.status[i])
ChgStatus(C)  == IF \E i \in 1..Len(C.tasks) : C.status[i] = "error" THEN "Error" ELSE "Done"

\* outcome of running task i of change C in world W: [how, W, C]
\*   how in {"done", "entry", "op", "self"}
StepDo(C, i, W, D) ==
    LET t == C.tasks[i]
        f == C.fault
        j == IF f.mode = "op1" THEN 1 ELSE IF f.mode = "op2" THEN 2 ELSE 0
        r == DoTask(t, W, D, C)
    IN  IF f.idx = i /\ f.mode = "entry"
        THEN [how |-> "entry", W |-> W, C |-> [C EXCEPT !.status = Aborted(C, i)]]
        ELSE IF f.idx = i /\ j > 0 /\ j <= NBackendOps(t, W, D, C)
        THEN [how |-> "op", W |-> AfterFailedOp(t, W, j), C |-> [C EXCEPT !.status = Aborted(C, i)]]
        ELSE IF ~r.ok
        THEN [how |-> "self", W |-> W, C |-> [C EXCEPT !.status = Aborted(C, i)]]
        ELSE [how |-> "done", W |-> r.W, C |-> [C EXCEPT !.status[i] = "done", !.saved[i] = r.sv]]

StepUndo(C, i, W) ==
    [W |-> UndoTask(C.tasks[i], C.saved[i], W, C), C |-> [C EXCEPT !.status[i] = "undone"]]

NewChange(op, tasks, fault) ==
    [kind |-> op.kind, tasks |-> tasks, status |-> [i \in 1..Len(tasks) |-> "do"],
     saved |-> [i \in 1..Len(tasks) |-> NoSaved], fault |-> fault]

(***************************************************************************)
(* Properties (c) and (d): verdicts computed when a change settles         *)
(***************************************************************************)
\* snaps that keep a finished alias-relevant task (another lane of a partly failed change)
KeptSnaps(C) == {C.tasks[i].s : i \in {j \in 1..Len(C.tasks) : C.status[j] = "done" /\ C.tasks[j].k # "nop"}}

\* (d) a failed change restores the previous alias state and system view.  Lanes: tasks of a lane that did not fail
\* stay done (prune-auto-aliases of a transfer source when the refresh of the target fails); the restoration is
\* demanded for everything else.
UndoOK(C, P, W) ==
    ChgStatus(C) = "Error" =>
        LET K == KeptSnaps(C) IN
        \* (Active is not alias state: a remove failing after clear-snap deliberately leaves the snap unlinked)
        /\ \A s \in Snaps \ K : W.inst[s] = P.inst[s] /\ [W.rec[s] EXCEPT !.act = FALSE] = [P.rec[s] EXCEPT !.act = FALSE]
        /\ \A n \in Names : W.sys[n] # P.sys[n] => (W.sys[n].s \in K \/ P.sys[n].s \in K)

\* (c) manual aliases survive refreshes and override auto ones; auto aliases follow the snap-declaration across
\* refreshes unless disabled
RefreshedSnaps(C) == {C.tasks[i].s : i \in {j \in 1..Len(C.tasks) :
                        C.tasks[j].k \in {"set-auto-aliases", "refresh-aliases"} /\ C.status[j] = "done"}}
RefreshOK(C, P, W, D) ==
    (C.kind \in {"refresh", "refreshdecl"} /\ ChgStatus(C) = "Done") =>
        /\ \A s \in Snaps, n \in Names : W.inst[s] => W.rec[s].al[n].m = P.rec[s].al[n].m      \* manual survive
        /\ \A s \in Snaps : W.inst[s] => W.rec[s].dis = P.rec[s].dis
        /\ \A s \in RefreshedSnaps(C), n \in Names :
              /\ W.rec[s].al[n].a = D[s][n]                                                   \* auto follow the declaration
              /\ W.rec[s].al[n].m # None => W.sys[n] = [s |-> s, a |-> W.rec[s].al[n].m]       \* manual overrides auto
              /\ (W.rec[s].al[n].m = None /\ D[s][n] # None) =>
                    IF W.rec[s].dis THEN W.sys[n].s # s ELSE W.sys[n] = [s |-> s, a |-> D[s][n]]
        /\ C.kind = "refreshdecl" => \A s \in Snaps, n \in Names : W.inst[s] => W.rec[s].al[n].a = D[s][n]

MonOK == [c |-> TRUE, d |-> TRUE]

(***************************************************************************)
(* Actions                                                                 *)
(***************************************************************************)
DeclChoices == [Names -> {None} \cup AutoApps]

AllOps ==
    {Op("alias", s, a, n, None) : s \in Snaps, a \in Apps, n \in Names}
    \cup {Op("unalias", None, None, n, None) : n \in Names}
    \cup {Op(k, s, None, None, None) : k \in {"disable", "prefer", "refresh", "remove"}, s \in Snaps}
    \cup {Op("install", s, None, None, f) : s \in Snaps, f \in InstallFlags}
    \cup {Op("refreshdecl", None, None, None, None)}
Ops == {op \in AllOps : op.kind \in OpKinds}

Init ==
    /\ inst = [s \in Snaps |-> s \in InitInst]
    /\ rec  = [s \in Snaps |-> [EmptyRec EXCEPT !.act = s \in InitInst]]
    /\ sys  = [n \in Names |-> NoTgt]
    /\ decl = [s \in Snaps |-> NoDecl]
    /\ chg  = Idle
    /\ pre  = CurW
    /\ mon  = MonOK
    /\ nops = 0

Budget == MaxOps = 0 \/ nops < MaxOps
Count  == nops' = IF MaxOps = 0 THEN 0 ELSE nops + 1

\* a new snap-declaration of s is known (it takes effect at the next refresh)
Decl(s, d) ==
    /\ IsIdle /\ Budget /\ decl[s] # d
    /\ decl' = [decl EXCEPT ![s] = d]
    /\ UNCHANGED <<inst, rec, sys, chg, pre, mon, nops>>

RequestRefused(op) ==
    /\ IsIdle /\ Budget /\ Refused(op, CurW, decl)
    /\ Count
    /\ mon' = MonOK
    /\ UNCHANGED <<inst, rec, sys, decl, chg, pre>>

Request(op) ==
    /\ IsIdle /\ Budget /\ ~Refused(op, CurW, decl)
    /\ \E tasks \in Chains(op, CurW, decl) :
       \E f \in {NoFault} \cup {[idx |-> i, mode |-> m] :
                                i \in {j \in 1..Len(tasks) : LateRemoveFaults \/ tasks[j].k # "discard-snap"}, m \in FaultModes} :
            chg' = NewChange(op, tasks, f)
    /\ pre' = CurW
    /\ mon' = MonOK
    /\ Count
    /\ UNCHANGED <<inst, rec, sys, decl>>

SetWorld(W) == inst' = W.inst /\ rec' = W.rec /\ sys' = W.sys

Do(i) ==
    /\ ~IsIdle /\ i \in 1..Len(chg.tasks) /\ CanDo(chg, i)
    /\ LET r == StepDo(chg, i, CurW, decl) IN SetWorld(r.W) /\ chg' = r.C
    /\ UNCHANGED <<decl, pre, mon, nops>>

Undo(i) ==
    /\ ~IsIdle /\ i \in 1..Len(chg.tasks) /\ CanUndo(chg, i)
    /\ LET r == StepUndo(chg, i, CurW) IN SetWorld(r.W) /\ chg' = r.C
    /\ UNCHANGED <<decl, pre, mon, nops>>

Settle ==
    /\ ~IsIdle /\ Settled(chg)
    /\ mon' = [c |-> RefreshOK(chg, pre, CurW, decl), d |-> UndoOK(chg, pre, CurW)]
    /\ chg' = Idle
    /\ pre' = CurW
    /\ UNCHANGED <<inst, rec, sys, decl, nops>>

ADecl    == \E s \in Snaps, d \in DeclChoices : Decl(s, d)
ARefused == \E op \in Ops : RequestRefused(op)
ARequest == \E op \in Ops : Request(op)
ADo      == \E i \in 1..Len(chg.tasks) : Do(i)
AUndo    == \E i \in 1..Len(chg.tasks) : Undo(i)
ASettle  == Settle

Next == ADecl \/ ARefused \/ ARequest \/ ADo \/ AUndo \/ ASettle
Spec == Init /\ [][Next]_vars

(***************************************************************************)
(* Invariants                                                              *)
(***************************************************************************)
AppOrNone == Apps \cup {None}
TypeOK ==
    /\ \A s \in Snaps : rec[s].dis \in BOOLEAN /\ rec[s].pend \in BOOLEAN
    /\ \A s \in Snaps, n \in Names : rec[s].al[n].m \in AppOrNone /\ rec[s].al[n].a \in AppOrNone
    /\ \A n \in Names : sys[n] = NoTgt \/ (sys[n].s \in Snaps /\ sys[n].a \in Apps)
    /\ \A s \in Snaps : ~inst[s] => rec[s] = EmptyRec

\* what the recorded state of the installed snaps implies for alias n: the set of targets
Implied(n) == {[s |-> s, a |-> Eff(rec[s].al[n], rec[s].dis)] :
                  s \in {x \in Snaps : inst[x] /\ ~rec[x].pend /\ Eff(rec[x].al[n], rec[x].dis) # None}}

\* (a) at every settled state the aliases on the system are exactly those the recorded state implies
SysMatchesState ==
    IsIdle => \A n \in Names : IF sys[n] = NoTgt THEN Implied(n) = {} ELSE Implied(n) = {sys[n]}

\* AliasesPending ("aliases in internal state and on disk might not match") is never left set on an active snap
NoPendingWhenSettled == IsIdle => \A s \in Snaps : (inst[s] /\ rec[s].act) => ~rec[s].pend

\* (b) no alias name is ever enabled for two snaps at once (every state, also while a change runs)
NoDoubleAlias ==
    \A n \in Names, s1 \in Snaps, s2 \in Snaps :
        (s1 # s2 /\ inst[s1] /\ inst[s2]) => ~(Eff(rec[s1].al[n], rec[s1].dis) # None /\ Eff(rec[s2].al[n], rec[s2].dis) # None)

\* ... and none shadows the command namespace of an installed snap
NoNamespaceClash ==
    IsIdle => \A n \in Names, s \in Snaps : (inst[s] /\ Eff(rec[s].al[n], rec[s].dis) # None) => ~(n \in Snaps /\ inst[n])

\* (c), (d)
RefreshKeepsManualFollowsDecl == mon.c
FailedChangeRestores          == mon.d

(***************************************************************************)
(* Model values                                                            *)
(***************************************************************************)
MCSnaps      == {"s1", "s2"}
MCNames2     == {"x", "y"}
MCNames3     == {"x", "y", "s2"}
MCNamesNs    == {"x", "s2"}
MCApps       == {"c1", "c2"}
MCAuto1      == {"c1"}
MCAuto2      == {"c1", "c2"}
MCAllKinds   == {"alias", "unalias", "disable", "prefer", "refresh", "refreshdecl", "install", "remove"}
MCFlags      == {"plain", "unaliased", "prefer"}
MCFlagsPlain == {"plain"}
MCFaults     == {"entry", "op1", "op2"}
MCFaultsAtomic == {"entry", "op1"}
MCNoFaults   == {}
MCFaultsEntry == {"entry"}
MCFaultsOp2  == {"op2"}
MCFlagsPrefer == {"prefer"}
MCKindsNs    == {"alias", "unalias", "prefer", "install", "remove"}
MCKindsOp2   == {"alias", "install"}
MCKindsF2    == {"alias", "remove"}
MCKindsTiny  == {"alias", "prefer", "install", "refresh"}
MCKindsRaaux == {"alias", "disable", "prefer", "refresh", "refreshdecl"}
MCBoth       == {"s1", "s2"}
MCOne        == {"s1"}
MCNone       == {}
=============================================================================
