\* the quick configuration with every interleaving explored (cross-check of the Reduce reduction)
SPECIFICATION Spec
CONSTANTS
    Snaps <- Two
    SnapOrder <- Order2
    MaxRev = 3
    MaxOps = 1
    MaxTasks = 36
    MaxFaults = 1
    KindOpts <- KAll
    TxnOpts <- BoolFT
    SelSizes <- Sz2
    InstallRevs <- Rev1
    RefreshRevs <- Rev3
    RetainInit <- Ret2
    InitCtx <- CtxQuick2
    OpFaults = TRUE
    Compact = TRUE
    Reduce = FALSE
INVARIANTS
    TypeOK
    FailedSnapRestored
    HealthySnapsComplete
    AllRevertedIfTransactional
    ConsistentAll
    ChangeErrorIffFailed
    LaneDiscipline
    EngineSane
CONSTRAINT StateConstraint
CHECK_DEADLOCK FALSE
