----------------------- MODULE ApiAccessSessionTable -----------------------
(* T->I export for C26 (part 3): every login/logout history of ApiAccessSession.tla within the bound, with  *)
(* the set of users that must be recognised after it.  Root module of ApiAccessSession_mc*.cfg; the check    *)
(* asserts  #histories = #distinct states.  The driver replays each history on a real state with the real   *)
(* auth.NewUser and the real POST /v2/logout, and after EVERY step sends a request with EVERY issued user's  *)
(* macaroon to real authenticated endpoints.                                                                 *)
EXTENDS ApiAccessSession, SequencesExt, IOUtils, Json

\* state reached by a history
RECURSIVE Live(_)
Live(hist) == IF hist = <<>> THEN {}
              ELSE LET p == Live(SubSeq(hist, 1, Len(hist) - 1))  o == hist[Len(hist)] IN
                   IF o[1] = "login" THEN p \cup {o[2]} ELSE p \ {o[2]}
RECURSIVE Issued(_)
Issued(hist) == IF hist = <<>> THEN 0
                ELSE Issued(SubSeq(hist, 1, Len(hist) - 1)) + (IF hist[Len(hist)][1] = "login" THEN 1 ELSE 0)

RECURSIVE Hists(_)
Hists(k) == IF k = 0 THEN { <<>> }
            ELSE LET P == Hists(k - 1)  F == { p \in P : Len(p) = k - 1 } IN
                 P \cup { Append(p, <<"login", Issued(p) + 1>>) : p \in { q \in F : Issued(q) < MaxUsers } }
                   \cup UNION { { Append(p, <<"logout", u>>) : u \in Live(p) } : p \in F }

\* only maximal histories are exported: the driver checks after every step, so prefixes are covered
All == Hists(MaxOps)
Maximal == { x \in All : Len(x) = MaxOps \/ (Issued(x) = MaxUsers /\ Live(x) = {}) }   \* nothing can follow

Table == LET S == SetToSeq(Maximal) IN
  [maxusers |-> MaxUsers, histories_total |-> Cardinality(All),
   histories |-> [i \in 1..Len(S) |->
      [ops |-> [j \in 1..Len(S[i]) |-> [op |-> S[i][j][1], u |-> S[i][j][2],
                                        live |-> SetToSeq(Live(SubSeq(S[i], 1, j)))]]]]]

ASSUME JsonSerialize(IOEnv.VERIF_OUT, Table)
=============================================================================
