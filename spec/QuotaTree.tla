------------------------------ MODULE QuotaTree ------------------------------
(***************************************************************************)
(* C36 -- accepted quota groups always fit inside their parents.           *)
(*                                                                         *)
(* A forest of quota groups (snap/quota/quota.go: Group).  Requests are    *)
(* NewGroup / NewSubGroup(parent) / UpdateQuotaLimits(g) ("direct") and    *)
(* the production update path of overlord/servicestate                     *)
(* (quotaUpdateGroupLimits: ValidateChange + Resources.Change + Update-    *)
(* QuotaLimits(merged), "merged").                                         *)
(*                                                                         *)
(* The ENABLING CONDITION of every action is a transcription of the real   *)
(* incremental algorithm (Resources.ValidateChange / Validate, Group.      *)
(* validateQuotasFit = getQuotaAllocations + validate*ResourceFit).  The   *)
(* declarative statement `Fits` is NOT used by the guards; TLC checks the  *)
(* algorithm against it.                                                   *)
(*                                                                         *)
(* Units: memory in MiB (all > the 640KiB minimum), threads in threads,    *)
(* CPU percentage in real percent (one core = 100), cpu-set = set of core  *)
(* numbers.  0 means "unset" for mem/thr/cnt/pct, {} for the cpu-set,      *)
(* exactly as in quota.Group.  `other` stands for a journal quota (a limit *)
(* that is not inherited and only matters for "at least one limit set").   *)
(***************************************************************************)
EXTENDS Integers, FiniteSets, Sequences, TLC

CONSTANTS
    MaxGroups,      \* at most this many groups in the forest
    MaxDepth,       \* a root has depth 1
    MaxRoots,       \* number of NewGroup (top-level) groups
    NCPU,           \* runtime.NumCPU() (mocked to the same value in the driver)
    MemVals,        \* memory values a request may carry (it may also omit memory)
    ThrVals,        \* thread values a request may carry
    CpuCounts,      \* CPU count values   } a request carries both or neither
    CpuPcts,        \* CPU percentages    }
    Cores,          \* a request may carry any subset of Cores as cpu-set (also the empty one), or omit it
    OtherVals,      \* subset of BOOLEAN: may a creation request carry a journal quota
    Paths           \* subset of {"direct", "merged"}

VARIABLES
    tree,           \* Seq of group records; the index is the group id (creation order), parent < id
    dev,            \* {} while Fits holds; else the set of named deviation classes of the breaking step (terminal)
    last            \* the last accepted request (history only, hidden by VIEW)

vars == <<tree, dev, last>>

Omit == -1

Max(a, b) == IF a > b THEN a ELSE b

EmptyRec(p) == [parent |-> p, mem |-> 0, thr |-> 0, cnt |-> 0, pct |-> 0, cpus |-> {}, other |-> FALSE]
EmptyReq    == [mem |-> Omit, thr |-> Omit, cnt |-> Omit, pct |-> Omit, hasSet |-> FALSE, cpus |-> {}, other |-> FALSE]

Ids(t) == 1..Len(t)

RECURSIVE Depth(_, _)
Depth(t, g) == IF g = 0 THEN 0 ELSE 1 + Depth(t, t[g].parent)

Roots(t) == {g \in Ids(t) : t[g].parent = 0}

(***************************************************************************)
(* quota.go: GetLocalCPUSetQuota / GetCPUSetQuota / GetLocalCPUQuota /     *)
(* getCurrentCPUAllocation                                                 *)
(***************************************************************************)
RECURSIVE UpSet(_, _)      \* nearest non-empty cpu-set at or above p (p = 0: none)
UpSet(t, p) == IF p = 0 THEN {} ELSE IF t[p].cpus # {} THEN t[p].cpus ELSE UpSet(t, t[p].parent)

CPUSetQuota(t, rec) == IF rec.cpus # {} THEN rec.cpus ELSE UpSet(t, rec.parent)

\* count*percentage; count 0 means "all allowed cores": min(NumCPU, size of the local or inherited cpu-set)
AllocRec(t, rec) ==
    IF rec.pct = 0 THEN 0
    ELSE IF rec.cnt # 0 THEN rec.cnt * rec.pct
    ELSE LET n == Cardinality(CPUSetQuota(t, rec))
         IN  (IF n # 0 /\ n < NCPU THEN n ELSE NCPU) * rec.pct

Alloc(t, g) == AllocRec(t, t[g])

Lim(t, r, g) == CASE r = "mem" -> t[g].mem
                  [] r = "thr" -> t[g].thr
                  [] r = "cpu" -> Alloc(t, g)

(***************************************************************************)
(* getQuotaAllocations: XReservedByChildren = sum over sub-groups of       *)
(* max(sub.XLimit, sub.XReservedByChildren); children have larger ids.     *)
(***************************************************************************)
RECURSIVE ResFrom(_, _, _, _)
ResFrom(t, r, g, i) ==
    IF i > Len(t) THEN 0
    ELSE (IF t[i].parent = g THEN Max(Lim(t, r, i), ResFrom(t, r, i, i + 1)) ELSE 0)
         + ResFrom(t, r, g, i + 1)
Res(t, r, g) == ResFrom(t, r, g, g + 1)

\* CPUSetReservedByChildren: union over sub-groups of (own set if any, else their reserved set)
RECURSIVE SetResFrom(_, _, _)
SetResFrom(t, g, i) ==
    IF i > Len(t) THEN {}
    ELSE (IF t[i].parent = g
             THEN (IF t[i].cpus # {} THEN t[i].cpus ELSE SetResFrom(t, i, i + 1))
             ELSE {})
         \cup SetResFrom(t, g, i + 1)
SetRes(t, g) == SetResFrom(t, g, g + 1)

\* The allQuotas map filled by upperParent.getQuotaAllocations(allQuotas), for the whole forest at once
\* (trees of different roots do not see each other: every walk below follows parent links only).
AllQuotas(t) ==
    [g \in Ids(t) |->
        [memLimit |-> t[g].mem,    memRes |-> Res(t, "mem", g),
         cpuLimit |-> Alloc(t, g), cpuRes |-> Res(t, "cpu", g),
         thrLimit |-> t[g].thr,    thrRes |-> Res(t, "thr", g),
         setLimit |-> t[g].cpus,   setRes |-> SetRes(t, g)]]

LimOf(aq, r, g) == CASE r = "mem" -> aq[g].memLimit [] r = "thr" -> aq[g].thrLimit [] r = "cpu" -> aq[g].cpuLimit
ResOf(aq, r, g) == CASE r = "mem" -> aq[g].memRes   [] r = "thr" -> aq[g].thrRes   [] r = "cpu" -> aq[g].cpuRes

RECURSIVE UpLim(_, _, _, _)     \* nearest group at or above p with a limit for resource r (0: none)
UpLim(t, aq, r, p) == IF p = 0 THEN 0 ELSE IF LimOf(aq, r, p) # 0 THEN p ELSE UpLim(t, aq, r, t[p].parent)

RECURSIVE UpCpuOrSet(_, _, _)   \* validateCPUResourceFit stops at the first ancestor with a CPU quota OR a cpu-set
UpCpuOrSet(t, aq, p) == IF p = 0 THEN 0
                        ELSE IF aq[p].cpuLimit # 0 \/ aq[p].setLimit # {} THEN p
                        ELSE UpCpuOrSet(t, aq, t[p].parent)

(***************************************************************************)
(* The subject of a fit check: an existing group (allQuotas[name] # nil)   *)
(* or a group being created (not yet linked into its parent's sub-groups,  *)
(* allQuotas[name] = nil because names are fresh).                         *)
(***************************************************************************)
Existing(t, g) == [ex |-> TRUE,  id |-> g, rec |-> t[g]]
Fresh(p)       == [ex |-> FALSE, id |-> 0, rec |-> EmptyRec(p)]

\* validateMemoryResourceFit / validateThreadResourceFit (same algorithm, r \in {"mem","thr"})
FitScalar(t, aq, r, s, L) ==
    LET own      == IF r = "mem" THEN s.rec.mem ELSE s.rec.thr
        res      == IF s.ex THEN ResOf(aq, r, s.id) ELSE 0
        reserved == IF s.ex THEN Max(own, res) ELSE own
        a        == UpLim(t, aq, r, s.rec.parent)
    IN  IF s.ex /\ res > L THEN FALSE              \* "too small to fit current subgroup usage"
        ELSE IF s.ex /\ L < own THEN TRUE           \* reducing => skip parents
        ELSE IF a = 0 THEN TRUE
        ELSE L <= LimOf(aq, r, a) - (ResOf(aq, r, a) - reserved)

\* cpuRequested of validateCPUResourceFit: NB uses the group's CURRENT (local or inherited) cpu-set,
\* and, unlike GetLocalCPUQuota, does not take min(NumCPU, |set|)
CpuRequested(t, s, q) ==
    IF q.cnt # 0 THEN q.cnt * q.pct
    ELSE LET n == Cardinality(CPUSetQuota(t, s.rec))
         IN  (IF n = 0 THEN NCPU ELSE n) * q.pct

FitCpu(t, aq, s, q) ==
    LET requested == CpuRequested(t, s, q)
        cur       == IF s.ex THEN aq[s.id].cpuLimit ELSE 0
        res       == IF s.ex THEN aq[s.id].cpuRes ELSE 0
        existing  == IF s.ex THEN Max(cur, res) ELSE 0
        a         == UpCpuOrSet(t, aq, s.rec.parent)
    IN  IF s.ex /\ res > requested THEN FALSE
        ELSE IF s.ex /\ requested < cur THEN TRUE
        ELSE IF a = 0 THEN TRUE
        ELSE IF aq[a].cpuLimit # 0
               THEN requested <= aq[a].cpuLimit - (aq[a].cpuRes - existing)
               ELSE requested <= Cardinality(aq[a].setLimit) * 100   \* cpu-set-only ancestor: walk stops here

\* validateCPUsAllowedResourceFit
FitSet(t, aq, s, S) ==
    LET res == IF s.ex THEN aq[s.id].setRes ELSE {}
        up  == UpSet(t, s.rec.parent)
    IN  IF s.ex /\ ~(res \subseteq S) THEN FALSE
        ELSE IF s.ex /\ S \subseteq s.rec.cpus THEN TRUE   \* further restriction => skip parents
        ELSE IF up = {} THEN TRUE ELSE S \subseteq up

\* validateQuotasFit
QuotasFit(t, aq, s, q) ==
    /\ q.mem # Omit => FitScalar(t, aq, "mem", s, q.mem)
    /\ (q.pct # Omit /\ q.pct # 0) => FitCpu(t, aq, s, q)
    /\ (q.hasSet /\ q.cpus # {}) => FitSet(t, aq, s, q.cpus)
    /\ q.thr # Omit => FitScalar(t, aq, "thr", s, q.thr)

(***************************************************************************)
(* resources.go                                                            *)
(***************************************************************************)
CpuFitsIntoSet(cnt, pct, set) == (set # {} /\ cnt # 0) => cnt * pct <= Cardinality(set) * 100

\* Resources.ValidateChange; cur is the group record (GetQuotaResources: a limit is present iff non-zero)
ValidateChange(cur, q) ==
    LET curCpu == cur.cnt # 0 \/ cur.pct # 0
    IN
    /\ q.mem # Omit =>
          /\ ~(cur.mem # 0 /\ q.mem = 0)
          /\ q.mem > 0                                   \* > memoryLimitMin (640KiB < 1 unit)
          /\ ~(cur.mem # 0 /\ q.mem < cur.mem)           \* cannot decrease
    /\ (curCpu /\ q.pct # Omit) =>
          /\ ~(q.pct = 0 /\ cur.pct # 0)
          /\ IF q.hasSet THEN CpuFitsIntoSet(q.cnt, q.pct, q.cpus)
             ELSE IF cur.cpus # {} THEN CpuFitsIntoSet(q.cnt, q.pct, cur.cpus)
             ELSE TRUE
    /\ (cur.cpus # {} /\ q.hasSet) =>
          /\ q.cpus # {}
          /\ (q.pct = Omit /\ curCpu) => CpuFitsIntoSet(cur.cnt, cur.pct, q.cpus)
    /\ (cur.thr # 0 /\ q.thr # Omit) =>
          /\ q.thr # 0
          /\ q.thr >= cur.thr

\* Resources.changeInternal on GetQuotaResources(cur): the merged full resources, as a request
Merge(cur, q) ==
    LET curCpu == cur.cnt # 0 \/ cur.pct # 0
    IN [mem    |-> IF q.mem # Omit THEN q.mem ELSE IF cur.mem # 0 THEN cur.mem ELSE Omit,
        thr    |-> IF q.thr # Omit THEN q.thr ELSE IF cur.thr # 0 THEN cur.thr ELSE Omit,
        cnt    |-> IF q.pct # Omit THEN q.cnt ELSE IF curCpu THEN cur.cnt ELSE Omit,
        pct    |-> IF q.pct # Omit THEN q.pct ELSE IF curCpu THEN cur.pct ELSE Omit,
        hasSet |-> q.hasSet \/ cur.cpus # {},
        cpus   |-> IF q.hasSet THEN q.cpus ELSE cur.cpus,
        other  |-> cur.other \/ q.other]

\* Resources.Validate on full resources given as a request
ValidateRes(q) ==
    /\ q.mem # Omit \/ q.pct # Omit \/ q.hasSet \/ q.thr # Omit \/ q.other       \* not Unset()
    /\ q.mem # Omit => q.mem # 0
    /\ q.pct # Omit =>
          /\ ~(q.cnt # 0 /\ q.pct = 0)
          /\ ~(q.cnt = 0 /\ q.pct = 0)
          /\ q.hasSet => CpuFitsIntoSet(q.cnt, q.pct, q.cpus)
    /\ q.hasSet => q.cpus # {}
    /\ q.thr # Omit => q.thr > 0

\* The assignments at the end of UpdateQuotaLimits.  NB: a CPU quota given without a cpu-set REPLACES
\* grp.CPULimit by a fresh struct, i.e. silently drops the group's cpu-set (named deviation "drop").
Apply(rec, q) ==
    [parent |-> rec.parent,
     mem    |-> IF q.mem # Omit THEN q.mem ELSE rec.mem,
     thr    |-> IF q.thr # Omit THEN q.thr ELSE rec.thr,
     cnt    |-> IF q.pct # Omit THEN q.cnt ELSE rec.cnt,
     pct    |-> IF q.pct # Omit THEN q.pct ELSE rec.pct,
     cpus   |-> IF q.hasSet THEN q.cpus ELSE IF q.pct # Omit THEN {} ELSE rec.cpus,
     other  |-> rec.other \/ q.other]

UpdateQuotaLimitsOK(t, aq, s, q) == ValidateChange(s.rec, q) /\ QuotasFit(t, aq, s, q)

\* NewGroup / NewSubGroup: UpdateQuotaLimits on the empty group, then grp.validate() (names are valid and fresh)
CreateOK(t, aq, p, q) ==
    /\ UpdateQuotaLimitsOK(t, aq, Fresh(p), q)
    /\ ValidateRes(Merge(Apply(EmptyRec(p), q), EmptyReq))

\* what is finally handed to UpdateQuotaLimits for an update request q on group g
Effective(t, g, path, q) == IF path = "merged" THEN Merge(t[g], q) ELSE q

UpdateOK(t, aq, g, path, q) ==
    IF path = "merged"
      THEN /\ ValidateChange(t[g], q)                     \* validateQuotaLimitsChange
           /\ ValidateRes(Merge(t[g], q))                 \* Resources.Change (dry run + Validate)
           /\ UpdateQuotaLimitsOK(t, aq, Existing(t, g), Merge(t[g], q))
      ELSE UpdateQuotaLimitsOK(t, aq, Existing(t, g), q)

(***************************************************************************)
(* The statement (declarative; never used by the guards)                   *)
(***************************************************************************)
FitsRes(t, r) == LET aq == AllQuotas(t) IN \A g \in Ids(t) : LimOf(aq, r, g) # 0 => ResOf(aq, r, g) <= LimOf(aq, r, g)
FitsMem(t) == FitsRes(t, "mem")
FitsThr(t) == FitsRes(t, "thr")
FitsCpu(t) == FitsRes(t, "cpu")
FitsSet(t) == \A g \in Ids(t) : (t[g].cpus # {} /\ UpSet(t, t[g].parent) # {}) => t[g].cpus \subseteq UpSet(t, t[g].parent)
\* (one evaluation of AllQuotas for all clauses)
Fits(t) ==
    LET aq == AllQuotas(t)
    IN  /\ \A g \in Ids(t) :
              /\ aq[g].memLimit # 0 => aq[g].memRes <= aq[g].memLimit
              /\ aq[g].thrLimit # 0 => aq[g].thrRes <= aq[g].thrLimit
              /\ aq[g].cpuLimit # 0 => aq[g].cpuRes <= aq[g].cpuLimit
        /\ FitsSet(t)

(***************************************************************************)
(* Named deviation classes of a Fits-breaking accepted step (mechanisms,   *)
(* not symptoms).  s: subject, q: what UpdateQuotaLimits received,         *)
(* gid: id of the subject in the new tree t2.                              *)
(*  A count = 0 CPU quota allocates percentage * (number of cores of the   *)
(*  local/inherited cpu-set, or NumCPU).  validateCPUResourceFit computes  *)
(*  it with the cpu-set current BEFORE the request and only when a CPU     *)
(*  quota is in the request; nothing re-validates it when a cpu-set        *)
(*  changes (same request, later request, ancestor, or the silent drop by  *)
(*  Apply).                                                                *)
(*  "drift-self": after the step the subject's CPU allocation differs from *)
(*                the value the fit check validated/assumed for it.        *)
(*  "drift-desc": after the step the CPU allocation of another group (a    *)
(*                descendant inheriting the subject's cpu-set) changed.    *)
(*  "shadow":     the walk of validateCPUResourceFit stopped at an ancestor*)
(*                that has only a cpu-set while a CPU quota exists higher. *)
(***************************************************************************)
AssumedAlloc(t, s, q, gid, h) ==
    IF h = gid
      THEN IF q.pct # Omit THEN (IF q.pct = 0 THEN 0 ELSE CpuRequested(t, s, q))
           ELSE IF s.ex THEN Alloc(t, gid) ELSE 0
      ELSE Alloc(t, h)

DriftSelf(t, s, q, gid, t2) == Alloc(t2, gid) # AssumedAlloc(t, s, q, gid, gid)
DriftDesc(t, s, q, gid, t2) == \E h \in Ids(t2) \ {gid} : Alloc(t2, h) # Alloc(t, h)

Shadow(t, s, q) ==
    /\ q.pct # Omit /\ q.pct # 0
    /\ LET aq == AllQuotas(t)
           a  == UpCpuOrSet(t, aq, s.rec.parent)
       IN  IF a = 0 THEN FALSE ELSE aq[a].cpuLimit = 0 /\ UpLim(t, aq, "cpu", t[a].parent) # 0

Classify(t, s, q, gid, t2) ==
    LET c == (IF DriftSelf(t, s, q, gid, t2) THEN {"drift-self"} ELSE {})
             \cup (IF DriftDesc(t, s, q, gid, t2) THEN {"drift-desc"} ELSE {})
             \cup (IF Shadow(t, s, q) THEN {"shadow"} ELSE {})
    IN  IF c = {} THEN {"unclassified"} ELSE c

DevOf(t, s, q, gid, t2) == IF t2 = t \/ Fits(t2) THEN {} ELSE Classify(t, s, q, gid, t2)   \* (t satisfies Fits: dev = {})

(***************************************************************************)
(* Actions.  Behaviour stops at the first Fits-breaking step (dev # {}):   *)
(* the algorithm's shortcuts assume Fits, so nothing is claimed after it.  *)
(***************************************************************************)
CanCreate(t, p) ==
    /\ Len(t) < MaxGroups
    /\ IF p = 0 THEN Cardinality(Roots(t)) < MaxRoots ELSE p \in Ids(t) /\ Depth(t, p) < MaxDepth

Create(aq, p, q) ==
    /\ dev = {}
    /\ CanCreate(tree, p) = TRUE
    /\ CreateOK(tree, aq, p, q) = TRUE        \* "= TRUE": evaluated as a state predicate, not split as an action
    /\ LET t2 == Append(tree, Apply(EmptyRec(p), q))
       IN  /\ tree' = t2
           /\ dev' = DevOf(tree, Fresh(p), q, Len(t2), t2)
    /\ last' = [op |-> "new", g |-> p, path |-> "direct", req |-> q]

Update(aq, g, path, q) ==
    /\ dev = {}
    /\ g \in Ids(tree)
    /\ UpdateOK(tree, aq, g, path, q) = TRUE
    /\ LET e  == Effective(tree, g, path, q)
           t2 == [tree EXCEPT ![g] = Apply(tree[g], e)]
       IN  /\ tree' = t2
           /\ dev' = DevOf(tree, Existing(tree, g), e, g, t2)
    /\ last' = [op |-> "update", g |-> g, path |-> path, req |-> q]

CpuOpts == {<<Omit, Omit>>} \cup (CpuCounts \X CpuPcts)
SetOpts == {<<FALSE, {}>>} \cup {<<TRUE, S>> : S \in SUBSET Cores}

Reqs(others) ==
    {[mem |-> m, thr |-> th, cnt |-> c[1], pct |-> c[2], hasSet |-> s[1], cpus |-> s[2], other |-> o] :
        m \in MemVals \cup {Omit}, th \in ThrVals \cup {Omit}, c \in CpuOpts, s \in SetOpts, o \in others}

\* aq: the allQuotas map of the current forest, computed once per state (as the code does once per request)
NewGroup(aq)     == \E q \in Reqs(OtherVals) : Create(aq, 0, q)
NewSubGroup(aq)  == \E p \in Ids(tree) : \E q \in Reqs(OtherVals) : Create(aq, p, q)
UpdateDirect(aq) == "direct" \in Paths /\ \E g \in Ids(tree) : \E q \in Reqs({FALSE}) : Update(aq, g, "direct", q)
UpdateMerged(aq) == "merged" \in Paths /\ \E g \in Ids(tree) : \E q \in Reqs({FALSE}) : Update(aq, g, "merged", q)

Init == tree = <<>> /\ dev = {} /\ last = [op |-> "init", g |-> 0, path |-> "direct", req |-> EmptyReq]
Next == LET aq == AllQuotas(tree) IN NewGroup(aq) \/ NewSubGroup(aq) \/ UpdateDirect(aq) \/ UpdateMerged(aq)
Spec == Init /\ [][Next]_vars

View == <<tree, dev>>
\* core numbers are only compared for equality / counted: cfgs may declare them as a symmetry set of model values
CoreSym == Permutations(Cores)

(***************************************************************************)
(* Properties checked by TLC                                               *)
(***************************************************************************)
TypeOK ==
    /\ \A g \in Ids(tree) : tree[g].parent \in 0..(g - 1) /\ Depth(tree, g) <= MaxDepth
    /\ Len(tree) <= MaxGroups
    /\ dev \subseteq {"drift-self", "drift-desc", "shadow", "unclassified"}

\* memory, threads and cpu-set inclusion are inductive under the transcribed guards -- unconditionally
InvMem == FitsMem(tree)
InvThr == FitsThr(tree)
InvSet == FitsSet(tree)
\* ... and the CPU clause is inductive EXCEPT for steps in the named deviation classes
InvFitsOrNamed == (dev = {} /\ Fits(tree)) \/ (dev # {} /\ ~FitsCpu(tree) /\ "unclassified" \notin dev)
\* used (negated) to let TLC produce the shortest witness of each deviation class for replay on the real code
NoDriftSelf == "drift-self" \notin dev
NoDriftDesc == "drift-desc" \notin dev
NoShadow    == "shadow" \notin dev
NoDev       == dev = {}
=============================================================================
