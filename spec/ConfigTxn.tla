--------------------------- MODULE ConfigTxn ---------------------------
(* C29 -- configuration transactions are isolated, read their own writes, never
   lose updates; null writes remove options; commit merges only the written
   options into the latest committed configuration; per-revision snapshots
   restore exactly what was saved.

   Two layers.

   OPERATIONAL (what overlord/configstate/config does, at its own grain):
     committed : snap -> configuration tree            (state "config")
     revcfg    : snap -> rev -> tree                   (state "revision-config")
     per transaction: pristine (copy of committed taken at NewTransaction / at
     the last effective Commit) and `writes`, the *patch tree* built by
     Transaction.Set / PatchConfig whose nodes are either
        Raw(v)  a *json.RawMessage: replaces whatever is committed there, or
        Pm(f)   a map[string]interface{}: merged key by key on commit.
     Get = getFromConfig(purgeNulls(applyChanges(copy(pristine), writes))),
     Commit = re-read committed, applyChanges + purgeNulls per written snap.

   DECLARATIVE (the property statement): a transaction is a private copy of the
   committed configuration on which every successful Set is a plain
   assignment at a dotted path (AssignD), reads see that copy with nulls
   removed; Commit replays the same assignments, in order, on the *latest*
   committed configuration.  `wlog` (history) keeps the successful Sets.

   The properties say the operational layer implements the declarative one.

   JSON values (uniform records so that TLC can compare any two of them):
     Lf(x)  leaf, x in {"1","2","s","null"}      Mp(f)  map, f : subset of Keys -> value
     Absent "no value here".
*)
EXTENDS Naturals, Sequences, FiniteSets, TLC

CONSTANTS Txns,      \* transaction slots
          Snaps,     \* snap names
          Revs,      \* revisions usable for snapshots
          SetMenu,   \* set of <<path, value>> a Set may use (path: non-empty sequence of keys)
          GetPaths,  \* paths a Get may ask for (<<>> = root document)
          ChkPaths,  \* paths over which the state invariants quantify
          MaxOps,    \* Set/Get/Commit operations per transaction
          MaxRevOps  \* save/restore/discard operations in total

VARIABLES committed, revcfg, open, pristine, writes,
          wlog,      \* history: [t -> sequence of [s, p, x]] successful Sets since Begin / last effective Commit
          saved,     \* history: [s -> [r -> what committed[s] was when last (effectively) saved, or Absent]]
          nops, nrev,
          mon,       \* monitors computed inside the actions (action properties as booleans)
          last       \* observation: the operation just performed and its result

vars == <<committed, revcfg, open, pristine, writes, wlog, saved, nops, nrev, mon, last>>
mcview == <<committed, revcfg, open, pristine, writes, wlog, saved, nops, nrev, mon>>

-----------------------------------------------------------------------
(* values *)
Absent == [t |-> "absent"]
Lf(x) == [t |-> "l", v |-> x]
EF == [k \in {} |-> Absent]
Mp(f) == [t |-> "m", m |-> f]
NullV == Lf("null")
EmptyMap == Mp(EF)
Upd(f, k, v) == [j \in DOMAIN f \cup {k} |-> IF j = k THEN v ELSE f[j]]
Sub(x, k) == IF x.t = "m" /\ k \in DOMAIN x.m THEN x.m[k] ELSE Absent
AsMap(x) == IF x = Absent THEN EmptyMap ELSE x     \* a snap without configuration reads as {}

(* results of a read *)
NoOpt == [k |-> "noopt"]
NotMap == [k |-> "notmap"]
Val(v) == [k |-> "val", v |-> v]

(* purgeNulls: drop null members at every depth; maps that become empty stay *)
RECURSIVE Purge(_)
Purge(x) == IF x.t = "m"
            THEN Mp([k \in {j \in DOMAIN x.m : x.m[j] # NullV} |-> Purge(x.m[k])])
            ELSE x

RECURSIVE HasNull(_)
HasNull(x) == IF x.t = "m" THEN \E k \in DOMAIN x.m : HasNull(x.m[k]) ELSE x = NullV

(* getFromConfig on a map value x for a non-empty path *)
RECURSIVE GetFrom(_, _)
GetFrom(x, p) ==
    IF Head(p) \notin DOMAIN x.m THEN NoOpt
    ELSE LET c == x.m[Head(p)] IN
         IF Len(p) = 1 THEN Val(c)
         ELSE IF c = NullV THEN NoOpt      \* JSON null decodes into a nil map: next lookup finds nothing
         ELSE IF c.t = "l" THEN NotMap     \* "snap %q option %q is not a map"
         ELSE GetFrom(c, Tail(p))

(* Get on a whole (map) document: key "" is the root document *)
Read(doc, p) == IF p = <<>> THEN (IF DOMAIN doc.m = {} THEN NoOpt ELSE Val(doc))
                ELSE GetFrom(doc, p)

-----------------------------------------------------------------------
(* patch trees: Transaction.changes *)
Nil == [t |-> "nil"]
Err == [t |-> "err"]
Raw(v) == [t |-> "raw", v |-> v]
Pm(f) == [t |-> "pm", m |-> f]

(* PatchConfig below a *json.RawMessage: the raw is decoded into plain Go values;
   nil (null / missing) -> fresh map; map -> descend; any other leaf -> error *)
RECURSIVE AssignV(_, _, _)
AssignV(val, p, x) ==
    IF p = <<>> THEN x
    ELSE IF val = Absent \/ val = NullV THEN Mp(Head(p) :> AssignV(Absent, Tail(p), x))
    ELSE IF val.t = "l" THEN Err
    ELSE LET sub == AssignV(Sub(val, Head(p)), Tail(p), x)
         IN  IF sub = Err THEN Err ELSE Mp(Upd(val.m, Head(p), sub))

RECURSIVE PatchCfg(_, _, _)
PatchCfg(node, p, x) ==
    IF node = Nil
    THEN Pm(Head(p) :> (IF Len(p) = 1 THEN Raw(x) ELSE PatchCfg(Nil, Tail(p), x)))
    ELSE IF node.t = "raw"
    THEN LET r == AssignV(node.v, p, x) IN IF r = Err THEN Err ELSE Raw(r)
    ELSE IF Len(p) = 1 THEN Pm(Upd(node.m, Head(p), Raw(x)))
    ELSE LET sub == PatchCfg(IF Head(p) \in DOMAIN node.m THEN node.m[Head(p)] ELSE Nil, Tail(p), x)
         IN  IF sub = Err THEN Err ELSE Pm(Upd(node.m, Head(p), sub))

(* json.Marshal of a patch tree *)
RECURSIVE Plain(_)
Plain(node) == IF node.t = "raw" THEN node.v ELSE Mp([k \in DOMAIN node.m |-> Plain(node.m[k])])

(* commitChange(pristine value or Absent, patch node) *)
RECURSIVE CommitChange(_, _)
CommitChange(pv, node) ==
    IF node.t = "raw" THEN node.v
    ELSE IF pv = Absent \/ pv.t = "l" THEN Plain(node)      \* missing, null or not a map: overwrite
    ELSE Mp([k \in DOMAIN pv.m \cup DOMAIN node.m |->
               IF k \in DOMAIN node.m THEN CommitChange(Sub(pv, k), node.m[k]) ELSE pv.m[k]])

Applied(doc, node) == IF node = Nil THEN doc ELSE CommitChange(doc, node)

(* the document Transaction.Get works on *)
ViewOf(pr, wr) == Purge(Applied(AsMap(pr), wr))
OpView(t, s) == ViewOf(pristine[t][s], writes[t][s])
OpGet(t, s, p) == Read(OpView(t, s), p)

-----------------------------------------------------------------------
(* declarative layer *)
RECURSIVE AssignD(_, _, _)
AssignD(val, p, x) ==
    IF p = <<>> THEN x
    ELSE LET m == IF val.t = "m" THEN val.m ELSE EF
         IN  Mp(Upd(m, Head(p), AssignD(IF Head(p) \in DOMAIN m THEN m[Head(p)] ELSE Absent, Tail(p), x)))

RECURSIVE FoldD(_, _, _)
FoldD(doc, log, s) ==
    IF log = <<>> THEN doc
    ELSE FoldD(IF Head(log).s = s THEN AssignD(doc, Head(log).p, Head(log).x) ELSE doc, Tail(log), s)

DView(t, s) == Purge(FoldD(AsMap(pristine[t][s]), wlog[t], s))

IsPrefix(p, q) == Len(p) <= Len(q) /\ SubSeq(q, 1, Len(p)) = p
Related(p, q) == IsPrefix(p, q) \/ IsPrefix(q, p)
Written(t, s) == {wlog[t][i].p : i \in {j \in 1..Len(wlog[t]) : wlog[t][j].s = s}}

-----------------------------------------------------------------------
AllOk == [ryw |-> TRUE, iso |-> TRUE, nlu |-> TRUE, merge |-> TRUE, snap |-> TRUE]
NoViews == [t \in Txns |-> [s \in Snaps |-> Absent]]
Views == [t \in Txns |-> [s \in Snaps |-> IF open[t] THEN OpView(t, s) ELSE Absent]]
(* views of all transactions other than t in a hypothetical next state are computed by the
   actions from the primed variables they assign; since no action assigns another transaction's
   pristine/writes the comparison below is evaluated on the unprimed/primed pairs explicitly *)

Init ==
    /\ committed = [s \in Snaps |-> Absent]
    /\ revcfg = [s \in Snaps |-> [r \in Revs |-> Absent]]
    /\ open = [t \in Txns |-> FALSE]
    /\ pristine = [t \in Txns |-> [s \in Snaps |-> Absent]]
    /\ writes = [t \in Txns |-> [s \in Snaps |-> Nil]]
    /\ wlog = [t \in Txns |-> <<>>]
    /\ saved = [s \in Snaps |-> [r \in Revs |-> Absent]]
    /\ nops = [t \in Txns |-> 0]
    /\ nrev = 0
    /\ mon = AllOk
    /\ last = [op |-> "init"]

(* config.NewTransaction *)
Begin(t) ==
    /\ ~open[t]
    /\ open' = [open EXCEPT ![t] = TRUE]
    /\ pristine' = [pristine EXCEPT ![t] = committed]
    /\ writes' = [writes EXCEPT ![t] = [s \in Snaps |-> Nil]]
    /\ wlog' = [wlog EXCEPT ![t] = <<>>]
    /\ mon' = AllOk
    /\ last' = [op |-> "begin", t |-> t]
    /\ UNCHANGED <<committed, revcfg, saved, nops, nrev>>

(* Transaction.Set(s, p, x) *)
SetFails(t, s, p, x) ==
    \/ Len(p) > 1 /\ GetFrom(AsMap(pristine[t][s]), p) = NotMap     \* traverses a non-map of pristine
    \/ PatchCfg(writes[t][s], p, x) = Err

Set(t, s, p, x) ==
    /\ open[t] /\ nops[t] < MaxOps
    /\ nops' = [nops EXCEPT ![t] = @ + 1]
    /\ IF SetFails(t, s, p, x)
       THEN /\ UNCHANGED <<writes, wlog>>
            /\ mon' = AllOk
            /\ last' = [op |-> "set", t |-> t, s |-> s, p |-> p, x |-> x, res |-> "err"]
       ELSE LET nw == PatchCfg(writes[t][s], p, x)
                nv == ViewOf(pristine[t][s], nw)
            IN  /\ writes' = [writes EXCEPT ![t][s] = nw]
                /\ wlog' = [wlog EXCEPT ![t] = Append(@, [s |-> s, p |-> p, x |-> x])]
                   \* statement, literally: a read of p now returns the value just written
                   \* (nulls removed), or "no option" if null was written
                /\ mon' = [AllOk EXCEPT !.ryw =
                              Read(nv, p) = (IF x = NullV THEN NoOpt ELSE Val(Purge(x)))]
                /\ last' = [op |-> "set", t |-> t, s |-> s, p |-> p, x |-> x, res |-> "ok"]
    /\ UNCHANGED <<committed, revcfg, open, pristine, saved, nrev>>

(* Transaction.Get(s, p) *)
Get(t, s, p) ==
    /\ open[t] /\ nops[t] < MaxOps
    /\ nops' = [nops EXCEPT ![t] = @ + 1]
    /\ mon' = AllOk
    /\ last' = [op |-> "get", t |-> t, s |-> s, p |-> p, res |-> OpGet(t, s, p)]
    /\ UNCHANGED <<committed, revcfg, open, pristine, writes, wlog, saved, nrev>>

(* Transaction.Commit *)
HasWrites(t) == \E s \in Snaps : writes[t][s] # Nil

Commit(t) ==
    /\ open[t] /\ nops[t] < MaxOps
    /\ nops' = [nops EXCEPT ![t] = @ + 1]
    /\ last' = [op |-> "commit", t |-> t]
    /\ IF ~HasWrites(t)
       THEN /\ UNCHANGED <<committed, pristine, writes, wlog>>      \* nothing to do: pristine is NOT refreshed
            /\ mon' = AllOk
       ELSE LET nc == [s \in Snaps |->
                         IF writes[t][s] = Nil THEN committed[s]
                         ELSE Purge(CommitChange(AsMap(committed[s]), writes[t][s]))]
            IN  /\ committed' = nc
                /\ pristine' = [pristine EXCEPT ![t] = nc]
                /\ writes' = [writes EXCEPT ![t] = [s \in Snaps |-> Nil]]
                /\ wlog' = [wlog EXCEPT ![t] = <<>>]
                /\ mon' = [AllOk EXCEPT
                      \* commit replays exactly the written options on the LATEST committed configuration
                      !.merge = \A s \in Snaps :
                                  nc[s] = IF Written(t, s) = {} THEN committed[s]
                                          ELSE Purge(FoldD(AsMap(committed[s]), wlog[t], s)),
                      \* no lost update: every committed option unrelated to what t wrote survives
                      !.nlu = \A s \in Snaps : \A q \in ChkPaths :
                                  (q # <<>> /\ committed[s] # Absent
                                   /\ Read(committed[s], q).k = "val"
                                   /\ \A w \in Written(t, s) : ~Related(w, q))
                                  => Read(AsMap(nc[s]), q) = Read(committed[s], q)]
    /\ UNCHANGED <<revcfg, open, saved, nrev>>

(* SaveRevisionConfig / RestoreRevisionConfig / DiscardRevisionConfig *)
SaveRev(s, r) ==
    /\ nrev < MaxRevOps /\ nrev' = nrev + 1
    /\ IF committed[s] = Absent
       THEN UNCHANGED <<revcfg, saved>>                                  \* nothing to save, old snapshot stays
       ELSE /\ revcfg' = [revcfg EXCEPT ![s][r] = committed[s]]
            /\ saved' = [saved EXCEPT ![s][r] = committed[s]]
    /\ mon' = AllOk
    /\ last' = [op |-> "save", s |-> s, r |-> r]
    /\ UNCHANGED <<committed, open, pristine, writes, wlog, nops>>

RestoreRev(s, r) ==
    /\ nrev < MaxRevOps /\ nrev' = nrev + 1
    /\ committed' = IF revcfg[s][r] = Absent THEN committed ELSE [committed EXCEPT ![s] = revcfg[s][r]]
    /\ mon' = [AllOk EXCEPT !.snap =
                  /\ \A s2 \in Snaps \ {s} : committed'[s2] = committed[s2]
                  /\ committed'[s] = IF saved[s][r] = Absent THEN committed[s] ELSE saved[s][r]]
    /\ last' = [op |-> "restore", s |-> s, r |-> r]
    /\ UNCHANGED <<revcfg, saved, open, pristine, writes, wlog, nops>>

DiscardRev(s, r) ==
    /\ nrev < MaxRevOps /\ nrev' = nrev + 1
    /\ revcfg' = [revcfg EXCEPT ![s][r] = Absent]
    /\ saved' = [saved EXCEPT ![s][r] = Absent]
    /\ mon' = AllOk
    /\ last' = [op |-> "discard", s |-> s, r |-> r]
    /\ UNCHANGED <<committed, open, pristine, writes, wlog, nops>>

Next ==
    \/ \E t \in Txns : Begin(t) \/ Commit(t)
    \/ \E t \in Txns, s \in Snaps, e \in SetMenu : Set(t, s, e[1], e[2])
    \/ \E t \in Txns, s \in Snaps, p \in GetPaths : Get(t, s, p)
    \/ \E s \in Snaps, r \in Revs : SaveRev(s, r) \/ RestoreRev(s, r) \/ DiscardRev(s, r)

Spec == Init /\ [][Next]_vars

-----------------------------------------------------------------------
(* PROPERTIES *)

(* every read of every option in every open transaction returns what the declarative
   private copy holds: the value last written, else the committed one, nulls removed.
   Reads are a function (Read) of the document, so equality of the whole documents is
   equality of the results for every path (ReadYourWritesPaths spells that out over ChkPaths
   and is used by the small configurations). *)
ReadYourWrites ==
    /\ mon.ryw
    /\ \A t \in Txns : open[t] => \A s \in Snaps : OpView(t, s) = DView(t, s)

ReadYourWritesPaths ==
    \A t \in Txns : open[t] =>
       \A s \in Snaps : LET ov == OpView(t, s)  dv == DView(t, s)
                         IN \A p \in ChkPaths : Read(ov, p) = Read(dv, p)

(* nothing written is visible elsewhere until commit.  State form: the committed
   configuration and every other transaction's view are functions of things only
   Commit/Restore (committed) or the owner (view) assign; checked as an action
   property below.  *)
IsolationStep ==
    /\ (last'.op \notin {"commit", "restore"}) => committed' = committed
    /\ \A u \in Txns :
         (open[u] /\ ~(last'.op \in {"begin", "set", "commit"} /\ last'.t = u))
           => \A s \in Snaps : ViewOf(pristine'[u][s], writes'[u][s]) = OpView(u, s)
Isolation == [][IsolationStep]_vars
IsolationInv == mon.iso

NoLostUpdate == mon.nlu /\ mon.merge

SnapshotExact ==
    /\ mon.snap
    /\ revcfg = saved           \* nothing but save/discard ever touches a snapshot

(* sanity: committed configurations never contain nulls *)
NoNullsCommitted == \A s \in Snaps : committed[s] # Absent => ~HasNull(committed[s])

(* sanity / documentation: a successful Set never goes through a non-map of the
   transaction's own view, so the declarative assignment never has to replace a scalar
   by a map inside a transaction (it may at commit, against newer committed data) *)
TypeOK ==
    /\ \A t \in Txns : \A s \in Snaps : writes[t][s] = Nil \/ writes[t][s].t = "pm"
    /\ \A t \in Txns : ~open[t] => wlog[t] = <<>>
=============================================================================
