\* quick exhaustive config: snaps a, b (+ snapd), at most 2 changes (every request against every single in-progress change)
CONSTANTS
  Snaps <- MCSnaps2
  MaxChanges = 2
INIT Init
NEXT Next
CHECK_DEADLOCK FALSE
INVARIANTS RejectIfBusy NoStartDuringExclusive StaleRejected RejectCreatesNothing NoOverlap ExclusiveLast
