\* quick exhaustive config: snaps a, b (+ snapd), at most 2 changes (every request against every single in-progress change, incl. partially finished ones)
CONSTANTS
  Snaps <- MCSnaps2
  MaxChanges = 2
  ACfgs <- MCACfgsQ
  WithPartial = TRUE
INIT Init
NEXT Next
CHECK_DEADLOCK FALSE
INVARIANTS RejectIfBusy NoStartDuringExclusive StaleRejected RejectCreatesNothing NoOverlap ExclusiveLast
