\* thorough exhaustive config (write actions; read properties as quantified invariants)
SPECIFICATION SpecW
CONSTANTS
  PlainKeys = {"a"}
  SeqKeys = {"s"}
  MaxSeq = 2
  MaxRev = 2
  PlainFmts = {0, 1, 2}
  SeqFmts = {0, 1, 2, 3}
  PredefRev = 1
INVARIANTS TypeOK Monotone MaxFormatSound FindManySound SeqLookupSound
PROPERTIES RefusedAddsChangeNothing RevisionsOnlyGrow ClashRefused OldRefused
VIEW ViewW
CHECK_DEADLOCK FALSE
