\* thorough exhaustive config
SPECIFICATION SpecW
CONSTANTS
  PlainKeys = {"a", "b"}
  SeqKeys = {"s"}
  MaxSeq = 3
  MaxRev = 3
  PlainFmts = {0, 1, 2}
  SeqFmts = {0, 1, 2, 3}
  PredefRev = 1
INVARIANTS TypeOK Monotone MaxFormatSound FindManySound SeqLookupSound
PROPERTIES RefusedAddsChangeNothing RevisionsOnlyGrow ClashRefused OldRefused
VIEW ViewW
CHECK_DEADLOCK FALSE
