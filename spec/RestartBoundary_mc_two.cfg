\* E03 thorough: two changes side by side (tasks 1,2 | 3): requests are per change
SPECIFICATION MCRSpec2
CONSTANTS
  N = 3
  NC = 2
  MaxFail = 1
  MaxRetry = 0
  MaxWaitRes = 0
  MaxTime = 1
  MaxRestart = 1
  MaxAbort = 0
  MaxBoot = 2
  MaxCalls = 2
  BoundaryChoices <- BoundQuick
  ClassicChoices <- BoolBoth
  TypeChoices <- TypesSys
  DagChoices <- ForwardDags
  BootAnywhere = FALSE
VIEW RView
INVARIANTS TypeOK RTypeOK I_E03a I_E03b I_E03c I_E03d I_E03e PanicOnlyByAbort
CHECK_DEADLOCK FALSE
