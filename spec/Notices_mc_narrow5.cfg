\* C08 narrow slice (quick): public notices only, 1 type, 2 keys, repeat-after {0,2}, clock {1,3,5}, 1 client, <= 5 additions
SPECIFICATION SpecPoll
CONSTANTS
  Users <- MCUsers0
  Types <- MCTypes1
  Keys <- MCKeys
  RepeatAfters = {0, 2}
  Data = {"d"}
  Clients <- MCClients1
  CfgChoices <- MCCfgNarrow
  ClockValues = {1, 3, 5}
  MaxAdds = 5
  Bump = TRUE
  BroadcastRepeat = TRUE
  AddAtTimes = {}
  ClockRegress = FALSE
VIEW view
INVARIANTS
  TypeOK
  UniqueNotices
  ExactlyOnce
  InOrder
  NoPhantom
  Ownership
  PublicToAll
  RepeatAfterSuppression
  StrictTimes
  NoLostWakeup
PROPERTIES
  PollDrainsProp
  NoPhantomProp
  RepeatAfterProp
CHECK_DEADLOCK FALSE
