CONSTANTS
  Sizes = {1, 2, 3, 4, 5, 6}
  MaxFile = 1
  MaxReq = 1
  AttemptLimits = {1}
  RedirChoices = {FALSE}
  TruncateOnRestart = FALSE
INIT TInit
NEXT TNext
CHECK_DEADLOCK FALSE
POSTCONDITION Accepted
INVARIANTS
  TypeOK
  FailureLeavesNoTarget
  SuccessPlacesTarget
  FailureRemovesPartial
  HashIsFilePrefix
  TargetHasContentPrefix
