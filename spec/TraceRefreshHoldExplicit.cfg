\* traces that also use explicit durations (no production caller): OtherBound is not claimed there
CONSTANTS
  Snaps <- MCSnaps3
  Gaters <- MCSnaps3
  HoldSets <- MCHoldSets
  Ticks <- MCTicks
  SysDurs <- MCSysDurs
  ExplicitDurs <- MCDurs
  MaxSteps = 0
INIT TInit
NEXT TNext
CHECK_DEADLOCK FALSE
INVARIANTS TypeOK GlobalBound UntilBound SystemSurvivesRefresh SystemLasts
POSTCONDITION Accepted
