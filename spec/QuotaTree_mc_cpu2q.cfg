\* quick: CPU quota + cpu-set, 2 groups, count 0/2, 50%/100%, cores {c0,c1,c2} (symmetric)
SPECIFICATION Spec
CONSTANTS
  MaxGroups = 2
  MaxDepth = 3
  MaxRoots = 1
  NCPU = 3
  MemVals = {}
  ThrVals = {}
  CpuCounts = {0, 2}
  CpuPcts = {50, 100}
  Cores = {c0, c1, c2}
  OtherVals = {TRUE}
  Paths = {"direct", "merged"}
VIEW View
SYMMETRY CoreSym
INVARIANTS TypeOK InvMem InvThr InvSet InvFitsOrNamed
CHECK_DEADLOCK FALSE
