CONSTANTS
  Sizes = {2, 3, 4}
  MaxFile = 6
  MaxReq = 5
  AttemptLimits = {2, 3, 7}
  RedirChoices = {FALSE, TRUE}
  TruncateOnRestart = FALSE
INIT SimInit
NEXT SimNext
CHECK_DEADLOCK FALSE
