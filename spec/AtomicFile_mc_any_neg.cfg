\* negative control (must be violated): without the discipline the universal client is NOT crash safe: every system-call sequence over 2 names, 2 fds, <=3 inodes, with a crash
\* at every point; lemma: the local discipline implies OldOrNew and NoEarlyExposure
SPECIFICATION AnySpec
CONSTANTS
  MaxChunks = 3
  Variants = {"good"}
  AnyNames = {"target", "tmp"}
  AnyFileFds = {1}
  AnyDirFds = {2}
  AnyChunks = 2
  AnyMaxInodes = 3
  AnyMaxHist = 4
  AnyMaxLen = 2
  AnyMaxSteps = 8
  AnyFaults = TRUE
  MaxFaults = 1
INVARIANTS TypeOK OldOrNew
CHECK_DEADLOCK FALSE
