------------------------------- MODULE SyncDir -------------------------------
(***************************************************************************)
(* C23 -- osutil.EnsureDirStateGlobs as the code does it.                  *)
(*                                                                         *)
(* A directory maps names to entry tokens (strings, so that they travel    *)
(* through JSON unchanged):                                                *)
(*   "none"        nothing there                                           *)
(*   "f:<c>:<p>"   regular file with content c and permission bits p       *)
(*   "edir"/"ndir" empty / non-empty directory occupying the name          *)
(*   "l:<t>"       symbolic link with target t; t is either the name of an *)
(*                 unmanaged entry of the same directory or a name that    *)
(*                 does not exist (dangling)                               *)
(* The desired map sends a subset of the names to                          *)
(*   "f:<c>:<p>"   (MemoryFileState / FileReference / FileReferencePlusMode)*)
(*   "l:<t>"       (SymlinkFileState)                                      *)
(*   "bad:<k>"     a FileState whose State() fails or has an unsupported   *)
(*                 type: the structural write fault                        *)
(*                                                                         *)
(* Go ranges over `content` and over `matches` (both maps) in random order:*)
(* ChangeOne and DeleteOne pick ANY pending name.  The first failing write *)
(* switches to erase mode (content = nil, changed = nil, loop stops).      *)
(* Removal errors (non-empty directory) are recorded, the loop continues.  *)
(*                                                                         *)
(* The whole call state is one record `s`; every action is `s' = Do*(s,..)`*)
(* and Succ(s) is the union of the same images, so that Outcomes (the set of*)
(* admissible outcomes used by the binding) and the state machine checked  *)
(* by TLC have one source of truth (property StepInSucc).                  *)
(***************************************************************************)
EXTENDS Naturals, FiniteSets, Sequences, TLC

CONSTANTS Managed,        \* names matching the globs
          Unmanaged,      \* names in the same directory that match no glob
          Contents, Perms, LinkTargets, BadKinds,
          UnmanagedTok,   \* entry tokens an unmanaged name may initially have (no links)
          DesExtra,       \* unmanaged names that may (wrongly) appear as keys of the desired map
          MaxBad          \* at most this many "bad:" entries in a desired map

Names   == Managed \cup Unmanaged
FileTok == {"f:" \o c \o ":" \o p : c \in Contents, p \in Perms}
LinkTok == {"l:" \o t : t \in LinkTargets}
BadTok  == {"bad:" \o b : b \in BadKinds}
DirTok  == {"edir", "ndir"}
EntryTok == {"none"} \cup DirTok \cup FileTok \cup LinkTok
DesTok  == FileTok \cup LinkTok \cup BadTok

(* What os.Open(name) / os.Stat(name) reach: one level of symlink resolution *)
(* (unmanaged entries are never links in the domain).                        *)
LinkTo == [u \in Unmanaged |-> "l:" \o u]
Resolve(dir, n) ==
    IF dir[n] \in LinkTok
    THEN LET cand == {u \in Unmanaged : dir[n] = LinkTo[u]}
         IN IF cand = {} THEN "none" ELSE dir[CHOOSE u \in cand : TRUE]
    ELSE dir[n]

(* EnsureFileState(dir/n, d): "same" (ErrSameState), "write" (entry replaced), "fail" *)
FSR(dir, n, d) ==
    IF d \in BadTok THEN "fail"                         \* State() error / unsupported type
    ELSE IF d \in FileTok THEN
        \* regularFileStateEqualTo opens the path (FOLLOWING a symlink): a directory there is
        \* "only regular files are supported" => error; equal content+perm => same;
        \* otherwise AtomicWrite renames a new regular file over the name (not following).
        LET r == Resolve(dir, n)
        IN IF r \in DirTok THEN "fail" ELSE IF r = d THEN "same" ELSE "write"
    ELSE
        \* symlink: Lstat+Readlink compare; AtomicSymlink = symlink(tmp) + rename(tmp, name),
        \* which fails with EISDIR on any directory
        IF dir[n] = d THEN "same" ELSE IF dir[n] \in DirTok THEN "fail" ELSE "write"

---------------------------------------------------------------------------
Start(init, des) ==
    [init0 |-> init, des0 |-> des, dir |-> init, phase |-> "check", pend |-> DOMAIN des,
     erase |-> FALSE, changed |-> {}, removed |-> {}, err |-> FALSE, todel |-> {}]

\* the up-front argument check: every key of content must match a glob
DoCheck(t) ==
    IF DOMAIN t.des0 \subseteq Managed
    THEN [t EXCEPT !.phase = "change"]
    ELSE [t EXCEPT !.phase = "done", !.err = TRUE, !.pend = {}]

\* change phase, one iteration of `for baseName, fileState := range content`
DoChange(t, n) ==
    LET r == FSR(t.dir, n, t.des0[n])
    IN CASE r = "same"  -> [t EXCEPT !.pend = @ \ {n}]
         [] r = "write" -> [t EXCEPT !.pend = @ \ {n}, !.dir[n] = t.des0[n], !.changed = @ \cup {n}]
         [] r = "fail"  -> [t EXCEPT !.pend = {}, !.erase = TRUE, !.err = TRUE, !.changed = {}]

\* filepath.Glob over the directory: every existing entry with a managed name (files,
\* directories, symlinks alike)
DoGlob(t) == [t EXCEPT !.phase = "delete", !.todel = {m \in Managed : t.dir[m] # "none"}]

\* delete phase, one iteration of `for path := range matches`
DoDelete(t, m) ==
    IF ~t.erase /\ m \in DOMAIN t.des0
    THEN [t EXCEPT !.todel = @ \ {m}]                                   \* content[baseName] != nil
    ELSE IF t.dir[m] = "ndir"
         THEN [t EXCEPT !.todel = @ \ {m}, !.err = TRUE]                \* os.Remove fails, continue
         ELSE [t EXCEPT !.todel = @ \ {m}, !.dir[m] = "none", !.removed = @ \cup {m}]

DoFinish(t) == [t EXCEPT !.phase = "done"]

Succ(t) ==
    CASE t.phase = "check"  -> {DoCheck(t)}
      [] t.phase = "change" -> IF t.pend = {} THEN {DoGlob(t)} ELSE {DoChange(t, n) : n \in t.pend}
      [] t.phase = "delete" -> IF t.todel = {} THEN {DoFinish(t)} ELSE {DoDelete(t, m) : m \in t.todel}
      [] OTHER -> {}

Out(t) == [dir |-> t.dir, changed |-> t.changed, removed |-> t.removed, err |-> t.err]

\* the set of admissible outcomes of one call (T->I oracle): closure of {Start} under Succ, as sets
\* of states (so that different orders reaching the same state are merged)
RECURSIVE Close(_)
Close(S) == IF \A t \in S : t.phase = "done" THEN S
            ELSE Close(UNION {IF t.phase = "done" THEN {t} ELSE Succ(t) : t \in S})
Outcomes(init, des) == {Out(t) : t \in Close({Start(init, des)})}

---------------------------------------------------------------------------
(* The property statement, as a predicate on (input, outcome) only.        *)

WriteFails(init, des) == \E n \in DOMAIN des : FSR(init, n, des[n]) = "fail"

\* name m carries desired state d.  AliasedBy: named deviation of the code -- a managed symlink
\* that resolves to an unmanaged regular file with exactly the desired content and permissions
\* is reported "same" and left in place (reading the name yields the desired content+perm).
AliasedBy(dir, m, d) == d \in FileTok /\ dir[m] \in LinkTok /\ Resolve(dir, m) = d
Holds(dir, m, d) == dir[m] = d \/ AliasedBy(dir, m, d)

ExpChanged(init, des) == {n \in DOMAIN des : FSR(init, n, des[n]) = "write"}
ExpRemoved(init, des) == {m \in Managed \ DOMAIN des : init[m] # "none"}

UnmanagedUntouched(init, out) == \A u \in Unmanaged : out.dir[u] = init[u]

\* the part of the statement about the directory and the error (observable through any caller)
PostDirOK(init, des, out) ==
    /\ UnmanagedUntouched(init, out)
    /\ DOMAIN des \subseteq Managed =>
        /\ ~out.err =>                                   \* success: exact
            \A m \in Managed : IF m \in DOMAIN des THEN Holds(out.dir, m, des[m])
                                                  ELSE out.dir[m] = "none"
        /\ WriteFails(init, des) =>                      \* fail closed
            /\ out.err
            /\ \A m \in Managed : out.dir[m] # "none" => (init[m] = "ndir" /\ out.dir[m] = "ndir")

\* the part about the returned lists
PostListsOK(init, des, out) ==
    (DOMAIN des \subseteq Managed /\ ~out.err) =>
        /\ out.changed = ExpChanged(init, des)
        /\ out.removed = ExpRemoved(init, des)

PostOK(init, des, out) == PostDirOK(init, des, out) /\ PostListsOK(init, des, out)

---------------------------------------------------------------------------
VARIABLE s

ExtraTok == CHOOSE x \in FileTok : TRUE   \* the one value a wrongly desired unmanaged name gets
InitDirs == {d \in [Names -> EntryTok] : \A u \in Unmanaged : d[u] \in UnmanagedTok}
DesMaps  == {f \in UNION {[D -> DesTok] : D \in SUBSET (Managed \cup DesExtra)} :
                /\ Cardinality({n \in DOMAIN f : f[n] \in BadTok}) <= MaxBad
                /\ \A n \in DOMAIN f \cap DesExtra : f[n] = ExtraTok}

Init == \E d \in InitDirs, f \in DesMaps : s = Start(d, f)

Check     == s.phase = "check" /\ s' = DoCheck(s)
ChangeOne == s.phase = "change" /\ \E n \in s.pend : s' = DoChange(s, n)
Glob      == s.phase = "change" /\ s.pend = {} /\ s' = DoGlob(s)
DeleteOne == s.phase = "delete" /\ \E m \in s.todel : s' = DoDelete(s, m)
Finish    == s.phase = "delete" /\ s.todel = {} /\ s' = DoFinish(s)

Next == Check \/ ChangeOne \/ Glob \/ DeleteOne \/ Finish
Spec == Init /\ [][Next]_s

---------------------------------------------------------------------------
(* Checked by TLC for every order *)

TypeOK ==
    /\ s.dir \in [Names -> EntryTok]
    /\ s.phase \in {"check", "change", "delete", "done"}
    /\ s.pend \subseteq DOMAIN s.des0 /\ s.todel \subseteq Managed
    /\ s.changed \subseteq Managed /\ s.removed \subseteq Managed

\* C23 proper: at the end of every behaviour the statement holds
Post == s.phase = "done" => PostOK(s.init0, s.des0, Out(s))

\* at every intermediate point as well
NeverTouchUnmanaged == \A u \in Unmanaged : s.dir[u] = s.init0[u]

\* erase mode is sticky and forgets the changed list (doc comment of the function)
EraseForgets == s.erase => (s.err /\ s.changed = {} /\ s.pend = {})

\* the functional presentation agrees with the actions
StepInSucc == [][s' \in Succ(s)]_s

\* (small configs only) the outcome of every behaviour is in the recursive outcome set
DoneInOutcomes == s.phase = "done" => Out(s) \in Outcomes(s.init0, s.des0)

\* managed names are interchangeable (used as SYMMETRY with model values in the thorough config)
SymManaged == Permutations(Managed)

\* vacuity monitors: violated on purpose by SyncDir_vac*.cfg
NoFailClosedRun == ~(s.phase = "done" /\ s.erase /\ s.removed # {})
NoRemovalFailure == ~(s.phase = "done" /\ ~s.erase /\ s.err)
=============================================================================
