--------------------------- MODULE AssertDB ---------------------------
(* C19 -- stored assertions only move forward in revision.

   Explicit model of asserts.Database over ONE general backstore plus the
   built-in trusted and predefined sets (asserts/database.go: Add, find,
   findMany, FindSequence; asserts/membackstore.go, asserts/fsbackstore.go:
   Put/Get/Search/SequenceMemberAfter).

   What is stored, at the grain of both real backstores: for every assertion
   identity (type + primary key) ONE slot per format iteration holding the
   revision last put under that format (membackstore: leaf[key][format];
   fsbackstore: files "active" / "active.<format>").  The *current* assertion
   of an identity, looking only at formats <= maxFormat, is the slot with the
   highest revision.

   Identities are records [t, k, n]:
     t = "plain"   test-only assertion with primary-key k          (max supported format 1)
     t = "predef"  test-only assertion that is in the predefined set
     t = "trusted" account assertion that is in the trusted set    (max supported format 0)
     t = "seq"     test-only-seq assertion, sequence key k, sequence number n  (max supported format 2)

   Every assertion carries a non-primary-key header "par" = revision mod 2, so
   FindMany by header observes *which* revision is current.

   Every operation records itself and its result in `last`; the binding
   (props/_assertdb.py + harness/overlay/asserts/zz_verif_assertdb_test.go)
   replays the sequence of `last` values of TLC behaviours against two real
   databases (memory backstore, filesystem backstore) and compares results. *)
EXTENDS Integers, FiniteSets, TLC

CONSTANTS PlainKeys,    \* primary-key values of storable test-only assertions
          SeqKeys,      \* sequence keys ("n" header) of test-only-seq
          MaxSeq,       \* sequence numbers 1..MaxSeq
          MaxRev,       \* revisions 0..MaxRev
          PlainFmts,    \* formats tried for test-only   (supported: 0..1)
          SeqFmts,      \* formats tried for test-only-seq (supported: 0..2)
          PredefRev     \* revision of the predefined test-only assertion

VARIABLES db,        \* [StorableIds -> [format -> revision or -1]]
          maxAdded,  \* history: highest revision whose Add succeeded, or -1
          last       \* the operation just performed and its result

vars == <<db, maxAdded, last>>

None == -1

PlainId(k) == [t |-> "plain", k |-> k, n |-> 0]
SeqId(k, n) == [t |-> "seq", k |-> k, n |-> n]
PredefId == [t |-> "predef", k |-> "p", n |-> 0]
TrustedId == [t |-> "trusted", k |-> "canonical", n |-> 0]

PlainIds == {PlainId(k) : k \in PlainKeys}
SeqIds == {SeqId(k, n) : k \in SeqKeys, n \in 1..MaxSeq}
StorableIds == PlainIds \cup SeqIds
AllIds == StorableIds \cup {PredefId, TrustedId}

MaxSupp(id) == CASE id.t = "seq" -> 2
                 [] id.t = "trusted" -> 0
                 [] OTHER -> 1
TryFmts(id) == CASE id.t = "seq" -> SeqFmts
                 [] id.t = "trusted" -> {0}
                 [] OTHER -> PlainFmts
SlotFmts(id) == 0..MaxSupp(id)

Max(S) == CHOOSE x \in S : \A y \in S : y <= x
Min(S) == CHOOSE x \in S : \A y \in S : x <= y

(* current revision of a storable identity seen through formats <= mf *)
CurRev(d, id, mf) == Max({d[id][f] : f \in {g \in SlotFmts(id) : g <= mf}} \cup {None})
CurFmt(d, id, mf) == LET r == CurRev(d, id, mf)
                     IN IF r = None THEN None
                        ELSE CHOOSE f \in SlotFmts(id) : f <= mf /\ d[id][f] = r

(* uniform result record *)
Res(r, rev, fmt, n, cur, upd, many) ==
    [r |-> r, rev |-> rev, fmt |-> fmt, n |-> n, cur |-> cur, upd |-> upd, many |-> many]
NotFound == Res("notfound", None, None, 0, None, FALSE, {})
Found(rev, fmt, n) == Res("found", rev, fmt, n, None, FALSE, {})

(* what Find/FindMaxFormat see: trusted, then predefined, then the backstore *)
Lookup(d, id, mf) ==
    CASE id.t = "trusted" -> Found(0, 0, 0)
      [] id.t = "predef" -> Found(PredefRev, 0, 0)
      [] OTHER -> IF CurRev(d, id, mf) = None THEN NotFound
                  ELSE Found(CurRev(d, id, mf), CurFmt(d, id, mf), id.n)

----------------------------------------------------------------------------
Init == /\ db = [id \in StorableIds |-> [f \in SlotFmts(id) |-> None]]
        /\ maxAdded = [id \in StorableIds |-> None]
        /\ last = [op |-> "Init"]

(* Database.Add: Check (format supported) -> trusted clash -> predefined clash -> Backstore.Put *)
AddResult(d, id, rev, f) ==
    IF f > MaxSupp(id)
        THEN Res("unsupported", rev, f, id.n, None, Lookup(d, id, MaxSupp(id)).r = "found", {})
    ELSE IF id.t = "trusted" THEN Res("clash-trusted", rev, f, 0, None, FALSE, {})
    ELSE IF id.t = "predef" THEN Res("clash-predefined", rev, f, 0, None, FALSE, {})
    ELSE LET cur == CurRev(d, id, MaxSupp(id))
         IN IF cur # None /\ cur >= rev
               THEN Res("revision", rev, f, id.n, cur, FALSE, {})
               ELSE Res("ok", rev, f, id.n, None, FALSE, {})

Add(id, rev, f) ==
    LET res == AddResult(db, id, rev, f)
    IN /\ last' = [op |-> "Add", id |-> id, rev |-> rev, fmt |-> f, res |-> res]
       /\ IF res.r = "ok"
             THEN /\ db' = [db EXCEPT ![id][f] = rev]
                  /\ maxAdded' = [maxAdded EXCEPT ![id] = rev]
             ELSE UNCHANGED <<db, maxAdded>>

Find(id) ==
    /\ last' = [op |-> "Find", id |-> id, res |-> Lookup(db, id, MaxSupp(id))]
    /\ UNCHANGED <<db, maxAdded>>

FindMaxFormat(id, mf) ==
    /\ mf <= MaxSupp(id)
    /\ last' = [op |-> "FindMaxFormat", id |-> id, mf |-> mf, res |-> Lookup(db, id, mf)]
    /\ UNCHANGED <<db, maxAdded>>

(* FindPredefined / FindTrusted never see the general backstore *)
FindPredefined(id) ==
    /\ last' = [op |-> "FindPredefined", id |-> id,
                res |-> IF id.t \in {"trusted", "predef"} THEN Lookup(db, id, MaxSupp(id)) ELSE NotFound]
    /\ UNCHANGED <<db, maxAdded>>
FindTrusted(id) ==
    /\ last' = [op |-> "FindTrusted", id |-> id,
                res |-> IF id.t = "trusted" THEN Lookup(db, id, 0) ELSE NotFound]
    /\ UNCHANGED <<db, maxAdded>>

(* FindMany(type, headers): typ in {"plain","seq"}; key = "" (any) or a primary-key / sequence key
   value; par in {-1 (any), 0, 1}.  Returns the *current* assertion of every matching identity
   (trusted/predefined ones included), as a set. *)
ManyCands(typ, key) ==
    IF typ = "plain"
       THEN {id \in PlainIds \cup {PredefId} : key = "" \/ id.k = key}
       ELSE {id \in SeqIds : key = "" \/ id.k = key}
ManyHits(d, typ, key, par) ==
    {[id |-> id, rev |-> Lookup(d, id, MaxSupp(id)).rev, fmt |-> Lookup(d, id, MaxSupp(id)).fmt] :
        id \in {c \in ManyCands(typ, key) :
                   /\ Lookup(d, c, MaxSupp(c)).r = "found"
                   /\ par \in {None, Lookup(d, c, MaxSupp(c)).rev % 2}}}
FindMany(typ, key, par) ==
    LET hits == ManyHits(db, typ, key, par)
    IN /\ last' = [op |-> "FindMany", typ |-> typ, key |-> key, par |-> par,
                   res |-> IF hits = {} THEN NotFound ELSE Res("found", None, None, 0, None, FALSE, hits)]
       /\ UNCHANGED <<db, maxAdded>>

(* FindSequence(key, after, maxFormat): first member with sequence > after visible through
   formats <= maxFormat; after = -1: the last such member.  maxFormat = -1: max supported. *)
SeqVisible(d, k, mf) == {n \in 1..MaxSeq : CurRev(d, SeqId(k, n), mf) # None}
SeqLookup(d, k, after, mf0) ==
    LET mf == IF mf0 = -1 THEN 2 ELSE mf0
        vis == SeqVisible(d, k, mf)
        cands == IF after = -1 THEN vis ELSE {n \in vis : n > after}
    IN IF cands = {} THEN NotFound
       ELSE LET n == IF after = -1 THEN Max(cands) ELSE Min(cands)
            IN Found(CurRev(d, SeqId(k, n), mf), CurFmt(d, SeqId(k, n), mf), n)
FindSequence(k, after, mf) ==
    /\ last' = [op |-> "FindSequence", key |-> k, after |-> after, mf |-> mf,
                res |-> SeqLookup(db, k, after, mf)]
    /\ UNCHANGED <<db, maxAdded>>

Next ==
    \/ \E id \in AllIds, rev \in 0..MaxRev : \E f \in TryFmts(id) : Add(id, rev, f)
    \/ \E id \in AllIds : Find(id)
    \/ \E id \in StorableIds \cup {PredefId} : \E mf \in SlotFmts(id) : FindMaxFormat(id, mf)
    \/ \E id \in AllIds : FindPredefined(id) \/ FindTrusted(id)
    \/ \E typ \in {"plain", "seq"}, key \in {""} \cup PlainKeys \cup SeqKeys \cup {"p"}, par \in {None, 0, 1} :
          FindMany(typ, key, par)
    \/ \E k \in SeqKeys, after \in -1..MaxSeq, mf \in -1..2 : FindSequence(k, after, mf)

Spec == Init /\ [][Next]_vars

(* Exhaustive checking uses the write actions only: the read operations do not change db, and
   their results are pure functions of db (Lookup / ManyHits / SeqLookup), so the read properties
   are stated below as invariants quantified over ALL read arguments at every reachable db. *)
NextW == \E id \in AllIds, rev \in 0..MaxRev : \E f \in TryFmts(id) : Add(id, rev, f)
SpecW == Init /\ [][NextW]_vars
ViewW == <<db, maxAdded>>

----------------------------------------------------------------------------
(* Properties (C19) *)

TypeOK == /\ \A id \in StorableIds : \A f \in SlotFmts(id) : db[id][f] \in None..MaxRev
          /\ \A id \in StorableIds : maxAdded[id] \in None..MaxRev

(* What the database returns for an identity (Find) is the highest revision successfully added. *)
Monotone == \A id \in StorableIds :
               /\ Lookup(db, id, MaxSupp(id)).rev = maxAdded[id]
               /\ (maxAdded[id] = None) = (Lookup(db, id, MaxSupp(id)).r = "notfound")

(* Format-limited lookups never return a format above the limit nor a revision above the current one. *)
MaxFormatSound == \A id \in StorableIds : \A mf \in SlotFmts(id) :
                     LET r == Lookup(db, id, mf)
                     IN r.r = "found" => (r.fmt <= mf /\ r.rev <= maxAdded[id] /\ db[id][r.fmt] = r.rev)

(* FindMany returns exactly the current revision of every matching identity. *)
FindManySound ==
    \A typ \in {"plain", "seq"}, key \in {""} \cup PlainKeys \cup SeqKeys, par \in {None, 0, 1} :
        LET hits == ManyHits(db, typ, key, par)
        IN /\ \A h \in hits : h.id \in StorableIds => (h.rev = maxAdded[h.id] /\ (par = None \/ h.rev % 2 = par))
           /\ \A id \in ManyCands(typ, key) \cap StorableIds :
                 (maxAdded[id] # None /\ (par = None \/ maxAdded[id] % 2 = par)) => \E h \in hits : h.id = id

(* Sequence lookups agree with point lookups and respect `after`. *)
SeqLookupSound ==
    \A k \in SeqKeys, after \in -1..MaxSeq, mf0 \in -1..2 :
        LET r == SeqLookup(db, k, after, mf0)
            mf == IF mf0 = -1 THEN 2 ELSE mf0
        IN IF r.r = "found"
              THEN /\ r.rev = Lookup(db, SeqId(k, r.n), mf).rev
                   /\ r.fmt = Lookup(db, SeqId(k, r.n), mf).fmt
                   /\ r.fmt <= mf
                   /\ (after # -1 => r.n > after /\ \A m \in (after+1)..(r.n-1) : Lookup(db, SeqId(k, m), mf).r = "notfound")
                   /\ (after = -1 => \A m \in (r.n+1)..MaxSeq : Lookup(db, SeqId(k, m), mf).r = "notfound")
              ELSE \A m \in 1..MaxSeq : (after = -1 \/ m > after) => Lookup(db, SeqId(k, m), mf).r = "notfound"

(* action properties (stated on last', so they are checked on every generated transition even under
   the VIEW of the exhaustive configs, which hides `last`) *)
(* Trusted / predefined identities can never be added. *)
ClashRefused ==
    [][(last'.op = "Add" /\ last'.id.t \in {"trusted", "predef"}) => (last'.res.r # "ok" /\ db' = db)]_vars
(* An Add is accepted only with a revision above every revision stored for that identity before,
   and an Add with revision <= the current one is refused. *)
OldRefused ==
    [][(last'.op = "Add" /\ last'.id \in StorableIds) =>
          LET cur == maxAdded[last'.id]
          IN /\ (last'.res.r = "ok" => last'.rev > cur)
             /\ (cur # None /\ last'.rev <= cur => last'.res.r # "ok")]_vars
(* a refused Add changes nothing; reads change nothing *)
RefusedAddsChangeNothing ==
    [][(last'.op # "Add" \/ last'.res.r # "ok") => (db' = db /\ maxAdded' = maxAdded)]_vars
(* the current revision of an identity never decreases, and strictly grows on a successful Add *)
RevisionsOnlyGrow ==
    [][\A id \in StorableIds :
          /\ CurRev(db', id, MaxSupp(id)) >= CurRev(db, id, MaxSupp(id))
          /\ (last'.op = "Add" /\ last'.res.r = "ok" /\ last'.id = id)
                => CurRev(db', id, MaxSupp(id)) > CurRev(db, id, MaxSupp(id))]_vars
=============================================================================
