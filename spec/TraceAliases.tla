---------------------------- MODULE TraceAliases ----------------------------
(***************************************************************************)
(* I->T binding for E02: validates an NDJSON log recorded from the REAL    *)
(* snapstate alias code (harness/overlay/snapstate/                        *)
(* zz_verif_aliases_test.go) against Aliases.                              *)
(*                                                                         *)
(* Every event carries the real post-state: per snap what snapstate.Get    *)
(* returns (AutoAliasesDisabled, AliasesPending, Aliases) and the system   *)
(* view (symlinks made by the real backend.Backend; `fold` is the same     *)
(* view folded from the fake backend's recorded ops).  The next state IS   *)
(* that real state; pre/mon are computed from real states with the spec's  *)
(* operators and every E02 invariant is evaluated on them (Monitor: a       *)
(* failing invariant is reported with its line and validation continues;   *)
(* TraceAliasesInv.cfg lists them as INVARIANTS instead: stop at first).   *)
(* With Strict (default) each step must in addition be exactly the spec's  *)
(* step: same task chain for the request (kinds, snaps, arguments, waits,  *)
(* lanes), same outcome of every task (done / failed and how), same        *)
(* post-state.  VERIF_STRICT=0 drops that conjunct (classification of a    *)
(* strict rejection: statement violated or only the model deviates).       *)
(***************************************************************************)
EXTENDS Aliases, IOUtils, Json

Trace  == ndJsonDeserialize(IOEnv.VERIF_TRACE)
Strict == ~("VERIF_STRICT" \in DOMAIN IOEnv /\ IOEnv.VERIF_STRICT = "0")

VARIABLE l
tvars == <<vars, l>>

ToSet(q) == {q[i] : i \in 1..Len(q)}
Ev       == Trace[l]
IsEv(e)  == l <= Len(Trace) /\ Trace[l].ev = e /\ l' = l + 1

LInst == [s \in Snaps |-> Ev.st.inst[s]]
LRec  == [s \in Snaps |-> [dis |-> Ev.st.rec[s].dis, pend |-> Ev.st.rec[s].pend,
                           al |-> [n \in Names |-> [m |-> Ev.st.rec[s].al[n].m, a |-> Ev.st.rec[s].al[n].a]],
                           act |-> Ev.st.rec[s].act]]
LSys  == [n \in Names |-> [s |-> Ev.st.sys[n].s, a |-> Ev.st.sys[n].a]]
LFold == [n \in Names |-> [s |-> Ev.st.fold[n].s, a |-> Ev.st.fold[n].a]]
LDecl == [s \in Snaps |-> [n \in Names |-> Ev.st.decl[s][n]]]
LW    == [inst |-> LInst, rec |-> LRec, sys |-> LSys]

\* the real post-state becomes the next state; the two system views must agree
TakeLogged == inst' = LInst /\ rec' = LRec /\ sys' = LSys /\ LFold = LSys
\* Active is taken from the log as it is (tasks that are not logged toggle it: unlink-current-snap, link-snap); the
\* spec reads it (refresh of a disabled snap is refused, remove of an inactive snap has no remove-aliases task)
NoAct(W) == [W EXCEPT !.rec = [s \in Snaps |-> [W.rec[s] EXCEPT !.act = FALSE]]]
SameWorld(W) == NoAct(LW) = NoAct(W)
DeclSame  == LDecl = decl

LTask(t) == [k |-> t.k, s |-> t.s, anc |-> ToSet(t.anc), lane |-> t.lane, n |-> t.n, app |-> t.app,
             which |-> ToSet(t.which), flag |-> t.flag]
LTasks == [i \in 1..Len(Ev.tasks) |-> LTask(Ev.tasks[i])]

\* shape of a chain: the alias-relevant tasks with what they (transitively) wait for among alias-relevant tasks
Shape(ts) ==
    {[k |-> ts[i].k, s |-> ts[i].s, n |-> ts[i].n, app |-> ts[i].app, which |-> ts[i].which, flag |-> ts[i].flag,
      lane0 |-> ts[i].lane = 0,
      anc |-> {<<ts[j].k, ts[j].s>> : j \in {x \in ts[i].anc : ts[x].k # "nop"}}] :
        i \in {x \in 1..Len(ts) : ts[x].k # "nop"}}

LOp == Op(Ev.op.kind, Ev.op.s, Ev.op.app, Ev.op.n, Ev.op.flag)

TReset ==
    /\ IsEv("Reset")
    /\ TakeLogged
    /\ LRec = [s \in Snaps |-> [EmptyRec EXCEPT !.act = LInst[s]]] /\ LSys = [n \in Names |-> NoTgt]
    /\ decl' = LDecl
    /\ chg' = Idle
    /\ pre' = LW
    /\ mon' = MonOK
    /\ nops' = 0

TDecl ==
    /\ IsEv("Decl")
    /\ IsIdle
    /\ TakeLogged
    /\ Strict => SameWorld(CurW)
    /\ decl' = LDecl
    /\ LDecl = [decl EXCEPT ![Ev.s] = [n \in Names |-> Ev.d[n]]]
    /\ UNCHANGED <<chg, mon, nops>>
    /\ pre' = LW

TRefused ==
    /\ IsEv("Request") /\ ~Ev.ok
    /\ IsIdle
    /\ TakeLogged /\ DeclSame
    /\ Strict => (SameWorld(CurW) /\ Refused(LOp, CurW, decl))
    /\ mon' = MonOK
    /\ pre' = LW
    /\ UNCHANGED <<decl, chg, nops>>

TRequest ==
    /\ IsEv("Request") /\ Ev.ok
    /\ IsIdle
    /\ TakeLogged /\ DeclSame
    /\ Strict => /\ SameWorld(CurW)
                 /\ ~Refused(LOp, CurW, decl)
                 /\ \E ts \in Chains(LOp, CurW, decl) : Shape(ts) = Shape(LTasks)
    /\ chg' = NewChange(LOp, LTasks, [idx |-> Ev.fault.idx, mode |-> Ev.fault.mode])
    /\ pre' = LW
    /\ mon' = MonOK
    /\ UNCHANGED <<decl, nops>>

\* a task finished (Done): the engine allows it, and it did what the spec's handler does
TDo ==
    /\ IsEv("Do")
    /\ ~IsIdle /\ Ev.idx \in 1..Len(chg.tasks)
    /\ TakeLogged /\ DeclSame
    /\ LET r == StepDo(chg, Ev.idx, CurW, decl)
       IN  /\ Strict => (CanDo(chg, Ev.idx) /\ r.how = "done" /\ SameWorld(r.W))
           /\ chg' = IF r.how = "done" THEN r.C ELSE [chg EXCEPT !.status[Ev.idx] = "done"]
    /\ UNCHANGED <<decl, pre, mon, nops>>

\* a task failed (Error): on entry (injected), at a backend operation (injected), or by itself
TFail ==
    /\ IsEv("Fail")
    /\ ~IsIdle /\ Ev.idx \in 1..Len(chg.tasks)
    /\ TakeLogged /\ DeclSame
    /\ LET r == StepDo(chg, Ev.idx, CurW, decl)
       IN  /\ Strict => (CanDo(chg, Ev.idx) /\ r.how = Ev.mode /\ SameWorld(r.W))
           /\ chg' = [chg EXCEPT !.status = Aborted(chg, Ev.idx)]
    /\ UNCHANGED <<decl, pre, mon, nops>>

TUndo ==
    /\ IsEv("Undo")
    /\ ~IsIdle /\ Ev.idx \in 1..Len(chg.tasks)
    /\ TakeLogged /\ DeclSame
    /\ LET r == StepUndo(chg, Ev.idx, CurW)
       IN  /\ Strict => (CanUndo(chg, Ev.idx) /\ SameWorld(r.W))
           /\ chg' = r.C
    /\ UNCHANGED <<decl, pre, mon, nops>>

TSettle ==
    /\ IsEv("Settle")
    /\ ~IsIdle
    /\ TakeLogged /\ DeclSame
    /\ Strict => (Settled(chg) /\ SameWorld(CurW) /\ Ev.status = ChgStatus(chg))
    /\ mon' = [c |-> RefreshOK(chg, pre, LW, decl), d |-> UndoOK(chg, pre, LW)]
    /\ chg' = Idle
    /\ pre' = LW
    /\ UNCHANGED <<decl, nops>>

TInit == Init /\ l = 1
\* The E02 invariants evaluated on the real post-state of every step.  A failing one is reported
\* (VERIF-VIOL line, invariant) and validation goes on, so that one pass finds every violating history.
Checks == <<[name |-> "TypeOK", ok |-> TypeOK],
            [name |-> "SysMatchesState", ok |-> SysMatchesState],
            [name |-> "NoPendingWhenSettled", ok |-> NoPendingWhenSettled],
            [name |-> "NoDoubleAlias", ok |-> NoDoubleAlias],
            [name |-> "NoNamespaceClash", ok |-> NoNamespaceClash],
            [name |-> "RefreshKeepsManualFollowsDecl", ok |-> RefreshKeepsManualFollowsDecl],
            [name |-> "FailedChangeRestores", ok |-> FailedChangeRestores]>>
Monitor == \A i \in 1..Len(Checks') : Checks'[i].ok \/ PrintT(<<"VERIF-VIOL", l, Checks'[i].name>>)

TStep == TReset \/ TDecl \/ TRefused \/ TRequest \/ TDo \/ TFail \/ TUndo \/ TSettle
TNext == TStep /\ Monitor

Accepted == TLCGet("stats").diameter - 1 = Len(Trace)
=============================================================================
