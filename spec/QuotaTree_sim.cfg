\* generator for T->I replay (-simulate): all resources jointly, 4 groups, 2 roots; the request domain is kept
\* small because -simulate enumerates ALL successors of every visited state
SPECIFICATION Spec
CONSTANTS
  MaxGroups = 4
  MaxDepth = 3
  MaxRoots = 2
  NCPU = 3
  MemVals = {1, 3}
  ThrVals = {2}
  CpuCounts = {0, 2}
  CpuPcts = {100}
  Cores = {0, 1}
  OtherVals = {FALSE, TRUE}
  Paths = {"direct", "merged"}
INVARIANTS TypeOK InvMem InvThr InvSet InvFitsOrNamed
CHECK_DEADLOCK FALSE
