\* generator for T->I replay (-simulate): all resources jointly, 4 groups, 2 roots
SPECIFICATION Spec
CONSTANTS
  MaxGroups = 4
  MaxDepth = 3
  MaxRoots = 2
  NCPU = 3
  MemVals = {1, 2, 3, 4}
  ThrVals = {1, 2, 3, 4}
  CpuCounts = {0, 1, 2}
  CpuPcts = {50, 100}
  Cores = {0, 1, 2}
  OtherVals = {FALSE, TRUE}
  Paths = {"direct", "merged"}
INVARIANTS TypeOK InvMem InvThr InvSet InvFitsOrNamed
CHECK_DEADLOCK FALSE
