CONSTANTS
  Creds = {"valid", "missing", "garbage", "trailing", "leading", "nopid", "nouid"}
  Users = {"none", "valid", "garbage", "removed", "forged"}
  Conns = {"none", "activeListed", "bothListed", "activeOther", "undesired", "hotplugGone", "otherSnap", "slotSide", "notSnap", "badRef"}
INIT TInit
NEXT TNext
INVARIANTS
  TypeOK
  InvNoCreds
  InvSnapSocket
  InvRootOnly
  InvAuthenticated
  InvUnknownSocket
  InvPolkitOnlyYes
POSTCONDITION Accepted
CHECK_DEADLOCK FALSE
