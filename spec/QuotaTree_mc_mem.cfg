\* memory only: 4 groups, depth 3, limits unset/0..4 (0 = explicit zero request); NoDev: Fits is inductive outright
SPECIFICATION Spec
CONSTANTS
  MaxGroups = 4
  MaxDepth = 3
  MaxRoots = 1
  NCPU = 3
  MemVals = {0, 1, 2, 3, 4}
  ThrVals = {}
  CpuCounts = {}
  CpuPcts = {}
  Cores = {}
  OtherVals = {TRUE}
  Paths = {"direct", "merged"}
VIEW View
INVARIANTS TypeOK InvMem InvThr InvSet InvFitsOrNamed NoDev
CHECK_DEADLOCK FALSE
