\* expected to FAIL (documents that the code is weaker than "exclusive changes run alone")
CONSTANTS
  Snaps <- MCSnaps2
  MaxChanges = 3
  ACfgs <- MCNoACfgs
  WithPartial = TRUE
INIT Init
NEXT Next
CHECK_DEADLOCK FALSE
INVARIANTS ExclusiveAlone
