\* thorough: 2 changes per behaviour, entry and Setup faults; lenient invariants
SPECIFICATION Spec
CONSTANTS
  MaxOps = 2
  SetupFaults = TRUE
  WorldNames = {"W0", "W1", "W2", "W3"}
INVARIANTS TypeOK FailureRestores FailureProfiles ActiveMatch ReloadMatch ProfilesMatch RepoSane
CHECK_DEADLOCK FALSE
