--------------------------- MODULE TraceAtomicFile ---------------------------
(***************************************************************************)
(* C06, I->T: the system-call sequence is WHATEVER strace recorded from    *)
(* the real snapd code (props/_atomicfile.py maps fds/paths to names and   *)
(* write calls to chunk ids).  Every event is executed with the action of  *)
(* AtomicFile.tla of the same name, and Crash is enabled after every       *)
(* consumed event.  Nothing here demands a particular order of calls: the  *)
(* check is that the observed order is crash safe under the model          *)
(* (OldOrNew in every state reached by Crash, NoEarlyExposure in every     *)
(* state in between).                                                      *)
(*                                                                         *)
(* Lines (one JSON object each, all carry "case"):                         *)
(*  Begin   target, hasold, newc (chunk ids making up New), pre: other     *)
(*          durable entries of the directory [name, content]               *)
(*          -> resets the file system to the case's initial state          *)
(*  Open    fd, name, creat, excl, trunc      OpenDir fd                   *)
(*  Write   fd, chunk                         Truncate fd                  *)
(*  Fsync   fd                                Close fd                     *)
(*  Meta    (chown/utimes: no content)        Rename from, to              *)
(*  Unlink  name                              Symlink name, content        *)
(*  RenameIn name, content                    End / Eof (no effect)        *)
(*  FsyncFail fd (fsync returned an error)    Failed (other failed call)   *)
(* The last line of a file is Eof so that a crash after the last real      *)
(* event is explored too while the diameter stays Len(Trace) + 1.          *)
(***************************************************************************)
EXTENDS AtomicFile, IOUtils, Json

Trace == ndJsonDeserialize(IOEnv.VERIF_TRACE)

VARIABLE l

E == Trace[l]
IsEv(e) == l <= Len(Trace) /\ Trace[l].ev = e /\ l' = l + 1

TInit ==
  /\ l = 1
  /\ par = MkPar("", FALSE, <<>>)
  /\ FsInit("", FALSE)
  /\ pc = <<"trace", 0, 0, 0, "run">>
  /\ disc = TRUE

PreIno(e, j) == Durable(e.pre[j].content)

TBegin ==
  /\ IsEv("Begin")
  /\ LET e == E
         base == IF e.hasold THEN <<Durable(<<0>>)>> ELSE <<>>
         np == Len(e.pre)
         names == (IF e.hasold THEN {e.target} ELSE {}) \cup {e.pre[j].name : j \in 1 .. np}
     IN /\ par' = MkPar(e.target, e.hasold, e.newc)
        /\ inodes' = base \o [j \in 1 .. np |-> PreIno(e, j)]
        /\ dhist' = <<[n \in names |-> IF e.hasold /\ n = e.target THEN 1
                                       ELSE Len(base) + (CHOOSE j \in 1 .. np : e.pre[j].name = n)]>>
        /\ fds' = EmptyFn
        /\ crashed' = FALSE

TOpen     == IsEv("Open")     /\ Open(E.fd, E.name, E.creat, E.excl, E.trunc)
TOpenDir  == IsEv("OpenDir")  /\ OpenDir(E.fd)
TWrite    == IsEv("Write")    /\ Write(E.fd, E.chunk)
TTruncate == IsEv("Truncate") /\ Truncate(E.fd)
TFsync    == IsEv("Fsync")    /\ Fsync(E.fd)
TClose    == IsEv("Close")    /\ Close(E.fd)
TMeta     == IsEv("Meta")     /\ Meta
TRename   == IsEv("Rename")   /\ Rename(E.from, E.to)
TUnlink   == IsEv("Unlink")   /\ Unlink(E.name)
TSymlink  == IsEv("Symlink")  /\ Symlink(E.name, E.content)
TRenameIn == IsEv("RenameIn") /\ RenameIn(E.name, E.content)
TFsyncFail == IsEv("FsyncFail") /\ FsyncFail(E.fd)      \* fsync returned an error (strace fault injection)
TFailed   == IsEv("Failed")   /\ Failed                 \* write/rename/... returned an error: no effect
TEnd      == (IsEv("End") \/ IsEv("Eof")) /\ Meta

TStep == \/ TBegin \/ TOpen \/ TOpenDir \/ TWrite \/ TTruncate \/ TFsync \/ TClose \/ TMeta
         \/ TRename \/ TUnlink \/ TSymlink \/ TRenameIn \/ TFsyncFail \/ TFailed \/ TEnd

\* a crash after every consumed event (and before the first one)
TCrash == l <= Len(Trace) /\ Crash /\ l' = l

TNext == (TStep \/ TCrash) /\ UNCHANGED <<pc, disc>>

TraceSpec == TInit /\ [][TNext]_<<vars, l>>

\* vacuity: number of Crash successors is visible in TLC's "states generated"
Accepted == TLCGet("stats").diameter - 1 = Len(Trace)
=============================================================================
