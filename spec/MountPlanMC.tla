---------------------------- MODULE MountPlanMC ----------------------------
(* Design-level check for C28: the history loop
       current_0 = Start,   current_{i+1} = Apply(Exec(current_i, RefPlan(current_i, desired_i)))
   over every history of desired profiles drawn from a small universe, with a small REFERENCE planner (not a
   transcription of neededChanges) and a model of the environment used by the harness (read-only base tree,
   writable-mimic construction = tmpfs + one bind per child, needed-by = id of the entry that needed it).
   TLC checks every clause of MountPlan as an invariant of the last update.

   KeepOrder = "forward": keeps are emitted in profile order (the profile stays a log of the mounts).
   KeepOrder = "reverse": keeps are emitted while walking the profile backwards, interleaved with the
                          unmounts - the profile written by the update then lists kept entries in reverse.
                          UnmountOrderTrue fails for this variant after three updates (cfg MountPlan_rev.cfg,
                          expected counterexample, replayed on the real code by props/c28.py).              *)
EXTENDS MountPlan

CONSTANTS MaxUpdates, MaxEntries, KeepOrder, Size, StartRootfs

-----------------------------------------------------------------------------
\* the harness' read-only base tree (zz_verif_mountplan_test.go: vBuildRoot), children in readdir order
A == <<"a">>   AB == <<"a", "b">>   ABC == <<"a", "b", "c">>   AF == <<"a", "f">>   D == <<"d">>
BaseNature == (<<>> :> "dir") @@ (A :> "dir") @@ (AB :> "dir") @@ (ABC :> "dir") @@ (AF :> "file") @@ (D :> "dir")
             @@ (<<"h">> :> "dir") @@ (<<"src">> :> "dir")
BaseKids == (A :> <<AB, AF>>) @@ (AB :> <<ABC>>) @@ (ABC :> <<>>) @@ (D :> <<>>)

RECURSIVE PathStrFrom(_, _)
PathStrFrom(p, i) == IF i > Len(p) THEN "" ELSE "/" \o p[i] \o PathStrFrom(p, i + 1)
PathStr(p) == IF p = <<>> THEN "/" ELSE PathStrFrom(p, 1)

OriginOpt(g) == IF g = "" THEN <<>> ELSE <<"x-snapd.origin=" \o g>>
RECURSIVE JoinFrom(_, _)
JoinFrom(o, i) == IF i > Len(o) THEN "" ELSE (IF i > 1 THEN "," ELSE "") \o o[i] \o JoinFrom(o, i + 1)
\* adds the identity string c (see MountPlan!Core)
WithC(e) == e @@ [c |-> e.n \o " " \o e.d \o " " \o e.t \o " " \o JoinFrom(NoDetach(e.o), 1)]

\* desired entries exactly as the harness builds them (vEntryText + project)
Mk(p, typ, g, v) ==
    LET vs == ToString(v)
        b == [d |-> PathStr(p), p |-> p, g |-> g, s |-> FALSE, nb |-> "", id |-> PathStr(p)]
    IN WithC(CASE typ \in {"bind", "rbind"} ->
              b @@ [n |-> "/src/s" \o vs, t |-> "none", k |-> "", o |-> <<typ, "rw">> \o OriginOpt(g)]
         [] typ = "tmpfs" ->
              b @@ [n |-> "tmpfs", t |-> "tmpfs", k |-> "", o |-> <<"mode=075" \o vs>> \o OriginOpt(g)]
         [] typ = "file" ->
              b @@ [n |-> "/src/f" \o vs, t |-> "none", k |-> "file",
                    o |-> <<"bind", "rw", "x-snapd.kind=file">> \o OriginOpt(g)]
         [] typ = "symlink" ->
              b @@ [n |-> "none", t |-> "none", k |-> "symlink",
                    o |-> <<"x-snapd.kind=symlink", "x-snapd.symlink=t" \o vs>> \o OriginOpt(g)])

\* helper entries exactly as planWritableMimic/execWritableMimic record them
SynthBase(q, id) == [d |-> PathStr(q), p |-> q, g |-> "", s |-> TRUE, nb |-> id, id |-> PathStr(q)]
TmpfsSynth(q, id) == WithC(SynthBase(q, id) @@ [n |-> "tmpfs", t |-> "tmpfs", k |-> "",
      o |-> <<"x-snapd.synthetic", "x-snapd.needed-by=" \o id, "mode=0755", "uid=0", "gid=0">>])
KidSynth(q, id) == WithC(
    IF BaseNature[q] = "dir"
    THEN SynthBase(q, id) @@ [n |-> PathStr(q), t |-> "none", k |-> "",
           o |-> <<"rbind", "x-snapd.synthetic", "x-snapd.needed-by=" \o id, "x-snapd.detach">>]
    ELSE SynthBase(q, id) @@ [n |-> PathStr(q), t |-> "none", k |-> "file",
           o |-> <<"bind", "x-snapd.kind=file", "x-snapd.synthetic", "x-snapd.needed-by=" \o id>>])
Mimic(q, id) == <<TmpfsSynth(q, id)>> \o [i \in DOMAIN BaseKids[q] |-> KidSynth(BaseKids[q][i], id)]

RootfsEntry == WithC([n |-> "tmpfs", d |-> "/", p |-> <<>>, t |-> "tmpfs", o |-> <<"x-snapd.origin=rootfs">>,
                k |-> "", g |-> "rootfs", s |-> FALSE, nb |-> "", id |-> "/"])

-----------------------------------------------------------------------------
\* universe of desired entries
AN == <<"a", "n">>  ANM == <<"a", "n", "m">>  AG == <<"a", "g">>  AK == <<"a", "k">>  DN == <<"d", "n">>
Universe ==
    IF Size = "quick"
    THEN {Mk(AN, "bind", "layout", 1), Mk(AN, "bind", "layout", 2), Mk(AB, "rbind", "layout", 1),
          Mk(ANM, "bind", "layout", 1), Mk(A, "tmpfs", "layout", 1), Mk(ABC, "bind", "", 1),
          Mk(A, "rbind", "overname", 1), Mk(AG, "file", "layout", 1)}
    ELSE {Mk(p, typ, g, 1) : p \in {A, AN}, typ \in {"bind", "tmpfs"}, g \in {"layout", "", "overname"}}
         \cup {Mk(AB, "bind", "layout", 1), Mk(AB, "rbind", "", 1), Mk(AN, "bind", "layout", 2),
               Mk(ANM, "bind", "layout", 1), Mk(ABC, "bind", "", 1), Mk(AG, "file", "layout", 1),
               Mk(AK, "symlink", "layout", 1)}

ValidProfile(S) ==
    /\ \A x, y \in S : x # y => x.p # y.p
    /\ \A x, y \in S : ~(Beneath(x, y) /\ y.k \in {"file", "symlink"})
ProfileSets ==
    {S \in {{}} \cup {{x} : x \in Universe} \cup (IF MaxEntries >= 2 THEN {{x, y} : x, y \in Universe} ELSE {})
            \cup (IF MaxEntries >= 3 THEN {{x, y, z} : x, y, z \in Universe} ELSE {}) : ValidProfile(S)}
RECURSIVE SetToSeq(_)
SetToSeq(S) == IF S = {} THEN <<>> ELSE LET x == CHOOSE x \in S : TRUE IN <<x>> \o SetToSeq(S \ {x})

-----------------------------------------------------------------------------
\* environment: what exists where, given the live mounts (in true order)
NatureAt(q, live) ==
    IF q \in DOMAIN BaseNature THEN BaseNature[q]
    ELSE IF \E i \in DOMAIN live : Len(q) < Len(live[i].p) /\ IsPrefix(q, live[i].p) THEN "dir"
    ELSE IF \E i \in DOMAIN live : live[i].p = q
         THEN LET m == live[CHOOSE i \in DOMAIN live : live[i].p = q] IN
              IF m.k \in {"file", "symlink"} THEN m.k ELSE "dir"
    ELSE ""
Writable(q, live) == q \notin DOMAIN BaseNature \/ \E i \in DOMAIN live : live[i].p = q /\ live[i].t = "tmpfs"
RECURSIVE FirstExisting(_, _)
FirstExisting(q, live) == IF NatureAt(q, live) # "" THEN q ELSE FirstExisting(SubSeq(q, 1, Len(q) - 1), live)

\* outcome of performing one mount: [ok, synth]
MountOutcome(e, live) ==
    LET want == IF e.k \in {"file", "symlink"} THEN e.k ELSE "dir"
        have == NatureAt(e.p, live)
    IN IF have # "" THEN [ok |-> have = want, synth |-> <<>>]
       ELSE LET a == FirstExisting(SubSeq(e.p, 1, Len(e.p) - 1), live) IN
            IF NatureAt(a, live) # "dir" THEN [ok |-> FALSE, synth |-> <<>>]
            ELSE IF Writable(a, live) THEN [ok |-> TRUE, synth |-> <<>>]
            ELSE [ok |-> TRUE, synth |-> Mimic(a, e.id)]

\* executing the actions of a plan in order: fills in ok/synth, threads the live mounts
RECURSIVE Exec(_, _, _)
Exec(live, acts, i) ==
    IF i > Len(acts) THEN <<>>
    ELSE LET c == acts[i]
             oc == IF c.act = "mount" THEN MountOutcome(c.e, live) ELSE [ok |-> TRUE, synth |-> <<>>]
             cc == [act |-> c.act, e |-> c.e, ok |-> oc.ok, synth |-> oc.synth]
         IN <<cc>> \o Exec(TruthApply(live, <<cc>>), acts, i + 1)

-----------------------------------------------------------------------------
\* reference planner
KeepIdx(cur, des) ==
    {i \in DOMAIN cur : /\ Unchanged(cur[i], des)
                        /\ ~\E j \in DOMAIN cur : ~Unchanged(cur[j], des) /\ Beneath(cur[i], cur[j])}
HasOpt(e, x) == \E i \in DOMAIN e.o : e.o[i] = x
WithDetach(e) ==
    IF (e.t = "tmpfs" \/ HasOpt(e, "bind") \/ HasOpt(e, "rbind")) /\ ~HasOpt(e, "x-snapd.detach")
    THEN [e EXCEPT !.o = Append(e.o, "x-snapd.detach")] ELSE e
Rev(s) == [i \in 1..Len(s) |-> s[Len(s) + 1 - i]]
Act(a, e) == [act |-> a, e |-> e]
RECURSIVE ByDepth(_, _)
ByDepth(s, dep) == IF dep > 4 THEN <<>> ELSE SelectSeq(s, LAMBDA e : Len(e.p) = dep) \o ByDepth(s, dep + 1)

RefPlan(cur, des) ==
    LET K == KeepIdx(cur, des)
        tagged == [i \in DOMAIN cur |-> [i |-> i, e |-> cur[i]]]
        rnk  == Rev(SelectSeq(tagged, LAMBDA x : x.i \notin K))
        kk   == SelectSeq(tagged, LAMBDA x : x.i \in K)
        rall == Rev(tagged)
        unm  == [i \in DOMAIN rnk |-> Act("unmount", WithDetach(rnk[i].e))]
        keepF == [i \in DOMAIN kk |-> Act("keep", kk[i].e)]
        mixed == [i \in DOMAIN rall |->
                    IF rall[i].i \in K THEN Act("keep", rall[i].e) ELSE Act("unmount", WithDetach(rall[i].e))]
        kept == {cur[i] : i \in K}
        new  == ByDepth(SelectSeq(des, LAMBDA e : e \notin kept), 0)
        mnt  == [i \in DOMAIN new |-> Act("mount", new[i])]
    IN (IF KeepOrder = "forward" THEN unm \o keepF ELSE mixed) \o mnt

-----------------------------------------------------------------------------
VARIABLES current, truth, step, bad, des
vars == <<current, truth, step, bad, des>>

Start == IF StartRootfs THEN <<RootfsEntry>> ELSE <<>>

\* violated clauses of an update (monitor evaluated inside the action: the update itself is not kept in the
\* state, which keeps states small)
Violated(u, log) ==
      (IF PlanCoversCurrent(u) THEN {} ELSE {"PlanCoversCurrent"})
 \cup (IF ApplyMatches(u) THEN {} ELSE {"ApplyMatches"})
 \cup (IF ResultOK(u) THEN {} ELSE {"Result"})
 \cup (IF HelperSupportKept(u) THEN {} ELSE {"HelperSupportKept"})
 \cup (IF KeptInPlace(u) THEN {} ELSE {"KeptInPlace"})
 \cup (IF UnmountOrder(u) THEN {} ELSE {"UnmountOrder"})
 \cup (IF UnmountOrderTrue(u, log) THEN {} ELSE {"UnmountOrderTrue"})
 \cup (IF UnmountStrandsNothing(u, log) THEN {} ELSE {"UnmountStrands"})
 \cup (IF MountOrder(u) THEN {} ELSE {"MountOrder"})
 \cup (IF \A i \in DOMAIN u.plan : u.plan[i].ok THEN {} ELSE {"NoFailure"})

Init == current = Start /\ truth = Start /\ step = 0 /\ bad = {} /\ des = <<>>

Update(S) ==
    /\ step < MaxUpdates
    /\ LET d    == SetToSeq(S)
           plan == Exec(truth, RefPlan(current, d), 1)
           u    == [cur |-> current, des |-> d, plan |-> plan, res |-> Apply(plan), aborted |-> FALSE]
       IN /\ bad' = Violated(u, truth)
          /\ current' = u.res
          /\ truth' = TruthApply(truth, plan)
          /\ des' = d
    /\ step' = step + 1

Next == \E S \in ProfileSets : Update(S)
Spec == Init /\ [][Next]_vars

\* des only records how a state was reached (counterexamples are replayed on the real code)
View == <<current, truth, step, bad>>

InvPlanCoversCurrent == "PlanCoversCurrent" \notin bad
InvApplyMatches      == "ApplyMatches" \notin bad
InvResult            == "Result" \notin bad
InvHelperSupportKept == "HelperSupportKept" \notin bad
InvKeptInPlace       == "KeptInPlace" \notin bad
InvUnmountOrder      == "UnmountOrder" \notin bad
InvUnmountOrderTrue  == "UnmountOrderTrue" \notin bad
InvMountOrder        == "MountOrder" \notin bad
InvUnmountStrandsNothing == "UnmountStrands" \notin bad
InvNoFailure         == "NoFailure" \notin bad
\* with the forward planner the profile IS the log of what is mounted
InvProfileIsLog      == KeepOrder = "forward" => current = truth
=============================================================================
