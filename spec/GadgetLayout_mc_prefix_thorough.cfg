\* C38 rejection is prefix-closed (justifies Prune in the geometry configs): no pruning, <= 3 structures, smaller value sets
CONSTANTS
  MinStart = 2
  MbrMax = 1
  PtrSize = 1
  MaxStructs = 3
  OffVals <- OffSmall
  SizeVals = {0, 1, 2}
  MinVals = {0, 1}
  RoleVals = {"none", "mbr"}
  OwVals <- OwNone
  ContentVals <- ContentNone
  PartialVals = {FALSE, TRUE}
  Prune = FALSE
INIT Init
NEXT Next
CHECK_DEADLOCK FALSE
INVARIANTS
  InvNonNegative
  InvIncreasing
  InvDisjoint
  InvContentInside
  InvOrderIsPermutation
PROPERTIES
  PrefixClosed
