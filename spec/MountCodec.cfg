INIT Init
NEXT Next
CONSTANTS
  MaxTok = 3
CHECK_DEADLOCK FALSE
