SPECIFICATION Spec
CONSTANTS
    MaxRev = 4
    MaxOps = 3
    InstallRevs <- Rev1
    AttrOpts <- AttrPlain
    RetainOpts <- Ret2
    CfgOpts <- Cfg1
    OnClassicOpts <- BoolF
    BootOpts <- BootNone
    KernelOpts <- BoolF
    OpFaults = TRUE
INVARIANTS
    TypeOK
    C11_Consistent
    C10_Restored
    C10_BlockRestored
    C12_Retain
    C13_Revert
    C13_RevertPre
CONSTRAINT StateConstraint
CHECK_DEADLOCK FALSE
