--------------------------- MODULE TraceApiAccess ---------------------------
(* I->T for C26: a seeded sample of real Command.ServeHTTP observations (one NDJSON line per request:     *)
(* the declared access class of the real endpoint, the request dimensions, what really happened).  A line  *)
(* is accepted iff the real outcome is the one ApiAccess.tla decides; the statement's clauses are evaluated *)
(* as invariants on every line.                                                                            *)
EXTENDS ApiAccess, IOUtils, Json

Trace == ndJsonDeserialize(IOEnv.VERIF_TRACE)

VARIABLE l
tvars == <<l, ac, rq, out>>

RqOf(j) == [cred |-> j.cred, socket |-> j.socket, uid |-> j.uid, user |-> j.user, polkit |-> j.polkit,
            conn |-> j.conn, degraded |-> j.degraded, write |-> j.write]
AcOf(j) == [kind |-> j.kind, polkit |-> j.polkit, nif |-> j.nif]

TInit == /\ l = 1 /\ out = "pending"
         /\ ac = [kind |-> "open", polkit |-> FALSE, nif |-> 0]
         /\ rq = [cred |-> "missing", socket |-> "other", uid |-> "user", user |-> "none", polkit |-> "no",
                  conn |-> "none", degraded |-> FALSE, write |-> FALSE]

TServe == /\ l <= Len(Trace)
          /\ Trace[l].ev = "Serve"
          /\ ac' = AcOf(Trace[l].ac)
          /\ rq' = RqOf(Trace[l].rq)
          /\ out' = Trace[l].out
          /\ out' = Decide(ac', rq')
          /\ l' = l + 1

TNext == TServe

Accepted == TLCGet("stats").diameter - 1 = Len(Trace)
=============================================================================
