CONSTANTS
  MaxMembers = 3
  Faults = TRUE
  Keys <- TKeys
  Befores <- TBefores
  Afters <- TAfters
  Types <- TTypes
  Bodies <- TBodies
  REntries <- TREntries
  PreClasses <- TPreClasses
  Corruptions <- TCorruptions
INIT Init
NEXT Next
CHECK_DEADLOCK FALSE
INVARIANTS
  Confined
  OtherSetsUntouched
  FailedImportCleansZips
  FailedRestoreIsIdentity
  CorruptNeverRestores
  SuccessReproducesSaved
  CleanupRemovesAsides
  RevertAfterSuccessIsIdentity
  RTypeOK
