\* E03 thorough: the process may die at any point (handlers in flight), all three restart types
SPECIFICATION MCRSpec
CONSTANTS
  N = 3
  NC = 1
  MaxFail = 1
  MaxRetry = 0
  MaxWaitRes = 0
  MaxTime = 1
  MaxRestart = 1
  MaxAbort = 0
  MaxBoot = 2
  MaxCalls = 2
  BoundaryChoices <- BoundQuick
  ClassicChoices <- BoolBoth
  TypeChoices <- TypesAll
  DagChoices <- ChainFork
  BootAnywhere = TRUE
VIEW RView
INVARIANTS TypeOK RTypeOK I_E03a I_E03b I_E03c I_E03d I_E03e PanicOnlyByAbort
CHECK_DEADLOCK FALSE
