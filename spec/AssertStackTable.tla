------------------------ MODULE AssertStackTable ------------------------
(* C18 part 2: every history of 1..MaxOps actions of AssertStack with the verdict per database handle
   after the last action, as JSON for the T->I binding. *)
EXTENDS AssertStack, SequencesExt, Json, IOUtils

Row(h) == [ops |-> h[1], layers |-> h[2],
           verdicts |-> [d \in 1..Len(h[2]) |-> Verdict(h[2], d)],
           highest |-> [d \in 1..Len(h[2]) |-> Highest(h[2], d)],
           shadow |-> ShadowCase(h[2])]
Table == LET hs == SetToSeq(AllHist) IN [i \in 1..Len(hs) |-> Row(hs[i])]

ASSUME \E h \in AllHist : ShadowCase(h[2])      \* vacuity: the layering that matters is exported
ASSUME \A h \in AllHist : \A d \in 1..Len(h[2]) : Visible(h[2], d) = Highest(h[2], d)
ASSUME JsonSerialize(IOEnv.VERIF_OUT, Table)
=============================================================================
