------------------------------ MODULE MultiSnap ------------------------------
(***************************************************************************)
(* E01 -- multi-snap changes: snapstate.InstallMany / UpdateMany /         *)
(* RemoveMany put the tasks of every snap in a lane of their own           *)
(* (Flags.Transaction = "per-snap", the default of the *Many entry points) *)
(* or all of them in ONE lane (Flags.Transaction = "all-snaps").           *)
(*                                                                         *)
(* This module is a COMPOSITION of the two specifications that are bound   *)
(* to the real code on their own:                                          *)
(*   SS == INSTANCE SnapSeq     per-snap record/world machine: the task    *)
(*                              chain generator (ChainFor), SnapSetup      *)
(*                              (SupFor), request preconditions and the    *)
(*                              do / undo / failure effects of every task  *)
(*   TE == INSTANCE TaskEngine  the engine's status rules: Task.SetStatus, *)
(*                              change readiness, mustWait, tryUndo,       *)
(*                              Change.Status and -- the point of E01 --   *)
(*                              Change.abortLanes/abortTasks with the      *)
(*                              healthy-lane exemption                     *)
(* Neither module is restated: the graph variables (waits, lanes, hasUndo, *)
(* chgOf), status, rdy and panicked of TaskEngine are variables of this    *)
(* module and every status change below goes through TE's operators.       *)
(*                                                                         *)
(* One change at a time.  A request for snaps s1..sn generates n chains    *)
(* (tasks first[i] .. first[i]+len[i]-1, each waiting for its predecessor) *)
(* plus, for UpdateMany, the check-rerefresh task (no lane, waits for      *)
(* nothing, keeps retrying until everything else is ready).  Each action   *)
(* is one critical section under the state lock, as seen by a              *)
(* task-status-changed handler:                                            *)
(*   Start / StartUndo   TaskRunner.Ensure starts a handler                *)
(*   FinishDo            do handler returned nil (Doing->Done; or, if the  *)
(*                       task was aborted meanwhile, Abort->Undo)          *)
(*   Fail                do handler failed: abortLanes(lanes(t)), Error    *)
(*   FinishUndo          undo handler returned nil                         *)
(*   NoUndo              Ensure: Undo without undo handler -> Done         *)
(*   FinishRR            check-rerefresh found the change ready            *)
(*   Settle              the change is ready                               *)
(* Tasks of different snaps interleave freely (the real handlers run as    *)
(* goroutines); a task's effect on its snap is applied atomically when it  *)
(* finishes (only one task per snap runs at a time: chains are linear).    *)
(* Start / StartUndo / NoUndo (and the harness's "fails on entry") happen  *)
(* inside TaskRunner.Ensure, which holds the state lock for a whole pass   *)
(* and starts EVERY task that can start: see "Ensure passes" below.        *)
(***************************************************************************)
EXTENDS Integers, Sequences, FiniteSets, TLC

CONSTANTS
    Snaps,        \* set of snap names
    SnapOrder,    \* the same as a sequence (the order model-checked requests list them in)
    MaxRev,       \* revisions 1..MaxRev
    MaxOps,       \* bound on the number of requests
    MaxTasks,     \* bound on the number of tasks of one change (TaskEngine's N)
    MaxFaults,    \* injected failures per change (at most one per snap)
    KindOpts,     \* subset of {"install-many", "update-many", "remove-many"}
    TxnOpts,      \* subset of BOOLEAN: Flags.Transaction = all-snaps
    SelSizes,     \* how many snaps a request may name
    InstallRevs,  \* revisions offered to install-many
    RefreshRevs,  \* revisions offered to update-many
    RetainInit,   \* raw refresh.retain value [t, v]
    InitCtx,      \* set of initial contexts [Snaps -> kept sequence] (<<>> = not installed; current = last, active)
    OpFaults,     \* BOOLEAN: also fail inside backend operations
    Compact,      \* BOOLEAN: model-checking abstraction -- keep only the tasks of KeepKinds in every chain
    Reduce        \* BOOLEAN: model-checking reduction -- canonical order of independent steps (see MayStep)

VARIABLES
    recs,      \* [Snaps -> SnapSeq record]
    worlds,    \* [Snaps -> SnapSeq world]
    env,       \* SnapSeq environment (retain, onClassic, boot, kernel)
    chg,       \* the change in progress / the last settled change
    clock,
    pass,      \* [open, due]: the current TaskRunner.Ensure pass and the tasks it still has to start (see "Ensure passes")
    \* ---- TaskEngine's variables
    status, waits, lanes, hasUndo, chgOf, rdy, panicked

vars == <<recs, worlds, env, chg, clock, pass, status, waits, lanes, hasUndo, chgOf, rdy, panicked>>

Tasks == 1..MaxTasks

SS == INSTANCE SnapSeq WITH
        InstallRevs <- {}, AttrOpts <- {}, RetainOpts <- {}, CfgOpts <- {}, OnClassicOpts <- {FALSE},
        BootOpts <- {}, KernelOpts <- {FALSE},
        rec <- 0, world <- 0, env <- 0, chg <- 0, clock <- 0       \* only its constant-level operators are used

TE == INSTANCE TaskEngine WITH
        N <- MaxTasks, NC <- 2, MaxFail <- 0, MaxRetry <- 0, MaxWaitRes <- 0, MaxTime <- 0, MaxRestart <- 0, MaxAbort <- 0,
        kind <- [t \in Tasks |-> "neutral"], snap <- [t \in Tasks |-> 0],
        waited <- [t \in Tasks |-> "Done"], atTime <- [t \in Tasks |-> 0], clean <- {}, now <- 1,
        running <- {}, stopped <- FALSE, c02bad <- FALSE, redoBad <- FALSE, everDone <- {}, everUndone <- {},
        failedDo <- {}, failedUndo <- {}, aborted <- {}, budget <- 0

Range(s) == {s[i] : i \in DOMAIN s}

-----------------------------------------------------------------------------
(* Which kinds have an undo handler: snapmgr.go (AddHandler(kind, do, undo)) and, for the kinds owned by other   *)
(* managers, the fixture of the snapstate tests (snapstate_test.go: setup-profiles, auto-connect, remove-profiles *)
(* have one; run-hook, validate-snap, auto-disconnect, save-snapshot, update-gadget-assets do not).              *)
NoUndoKinds == {"prerequisites", "validate-snap", "cleanup", "clear-snap", "discard-snap", "auto-disconnect",
                "save-snapshot", "check-rerefresh", "update-gadget-assets",
                "run-hook[install]", "run-hook[default-configure]", "run-hook[configure]", "run-hook[check-health]",
                "run-hook[pre-refresh]", "run-hook[post-refresh]", "run-hook[remove]"}
HasUndoKind(k) == k \notin NoUndoKinds

-----------------------------------------------------------------------------
(* Requests                                                                 *)

SnapKind(kind) == CASE kind = "install-many" -> "install"
                    [] kind = "update-many"  -> "refresh"
                    [] kind = "remove-many"  -> "remove"

\* the single-snap operation SnapSeq knows, for one item [snap, rev] of a multi request
OpOf(kind, it) == SS!MkOp(SnapKind(kind), IF kind = "remove-many" THEN 0 ELSE it.rev, SS!PlainAttr, FALSE)

\* Compact chains (model checking only; recorded real changes are validated with the full chains): the tasks that
\* change the record or the system, plus one task without effect of each sort (first / with undo handler / without /
\* after the garbage collection / last).  The dropped tasks have no effect on (record, world) in SnapSeq either, so
\* they only add positions at which "nothing more happens" to the interleavings.
KeepKinds == {"prerequisites", "download-snap", "prepare-snap", "mount-snap", "unlink-current-snap", "copy-snap-data",
              "link-snap", "unlink-snap", "clear-snap", "discard-snap", "cleanup", "run-hook[configure]",
              "stop-snap-services", "save-snapshot"}
ChainOf(kind, it) ==
    LET full == SS!ChainFor(recs[it.snap], env, OpOf(kind, it))
    IN  IF Compact THEN SelectSeq(full, LAMBDA t : t.k \in KeepKinds) ELSE full

\* UpdateMany appends check-rerefresh (finalizeUpdate; Flags.NoReRefresh is not set by the entry point)
HasRR(kind) == kind = "update-many"

\* Layout of the tasks of a request: chains[i], first[i] (task number of the first task of the i-th snap; first[n+1]
\* = one past the last), n = number of snap tasks, owner[t] = position of the snap that owns task t (0 for
\* check-rerefresh / unused)
RECURSIVE FirstsOf(_, _)
FirstsOf(chains, i) == IF i = 1 THEN 1 ELSE FirstsOf(chains, i - 1) + Len(chains[i - 1])
Layout(kind, sel) ==
    LET chains == [i \in 1..Len(sel) |-> ChainOf(kind, sel[i])]
        first  == [i \in 1..(Len(sel) + 1) |-> FirstsOf(chains, i)]
        n      == first[Len(sel) + 1] - 1
    IN [chains |-> chains, first |-> first, n |-> n, nt |-> n + (IF HasRR(kind) THEN 1 ELSE 0),
        owner |-> [t \in Tasks |-> IF t > n THEN 0 ELSE CHOOSE i \in 1..Len(sel) : first[i] <= t /\ t < first[i + 1]]]

\* THE LANE RULE (E01): per-snap -> the i-th snap's tasks join the i-th new lane; all-snaps -> one lane for all.
\* Lane numbers are those of first appearance in task order (the real ones are renumbered the same way).
LaneOfPos(txn, i) == IF txn THEN 1 ELSE i
SpecLanes(ly, txn) == [t \in Tasks |-> IF ly.owner[t] = 0 THEN <<0>> ELSE <<LaneOfPos(txn, ly.owner[t])>>]
\* every task of a chain waits for its predecessor (the real tasks may in addition wait for earlier ones)
SpecWaits(ly) == [t \in Tasks |-> IF ly.owner[t] = 0 \/ t = ly.first[ly.owner[t]] THEN {} ELSE {t - 1}]

IdlePer == [in |-> FALSE, pos |-> 0, op |-> [kind |-> "none"], sup |-> SS!NoSup, chain |-> <<>>, first |-> 0,
            loc |-> <<>>, pre |-> [rec |-> SS!EmptyRec, world |-> SS!EmptyWorld], disc |-> {},
            fail |-> [idx |-> 0, mode |-> ""]]

IdleChg == [phase |-> "idle", kind |-> "none", txn |-> FALSE, sel |-> <<>>, n |-> 0, rr |-> 0, owner |-> [t \in Tasks |-> 0],
            first |-> <<1>>,
            per |-> [s \in Snaps |-> IdlePer], status |-> "none", now |-> 0, nfail |-> 0]

Idle == chg.phase = "idle"
NoPass == [open |-> FALSE, due |-> {}]       \* no TaskRunner.Ensure pass in progress (see "Ensure passes")

SelSnaps(sel) == {sel[i].snap : i \in 1..Len(sel)}
PosOf(sel, s) == CHOOSE i \in 1..Len(sel) : sel[i].snap = s

CanRequestAll(kind, sel) ==
    /\ Len(sel) >= 1
    /\ \A i, j \in 1..Len(sel) : i # j => sel[i].snap # sel[j].snap
    /\ \A i \in 1..Len(sel) : SS!CanRequest(recs[sel[i].snap], env, OpOf(kind, sel[i]))

PerFor(kind, sel, ly, s) ==
    IF s \notin SelSnaps(sel) THEN [IdlePer EXCEPT !.pre = [rec |-> recs[s], world |-> worlds[s]]]
    ELSE LET i  == PosOf(sel, s)
             op == OpOf(kind, sel[i])
             ch == ly.chains[i]
         IN [in |-> TRUE, pos |-> i, op |-> op, sup |-> SS!SupFor(recs[s], op), chain |-> ch,
             first |-> ly.first[i], loc |-> [j \in 1..Len(ch) |-> SS!NoLoc],
             pre |-> [rec |-> recs[s], world |-> worlds[s]], disc |-> {}, fail |-> [idx |-> 0, mode |-> ""]]

KindOfTask(c, t) == IF t = c.rr THEN "check-rerefresh"
                    ELSE LET s == c.sel[c.owner[t]].snap IN c.per[s].chain[t - c.per[s].first + 1].k

\* a request that is accepted: the change with graph (L = lanes, W = waits), all tasks in Do
StartMulti(kind, txn, sel, ly, now, L, W) ==
    LET c  == [phase |-> "run", kind |-> kind, txn |-> txn, sel |-> sel, n |-> ly.n, rr |-> IF HasRR(kind) THEN ly.n + 1 ELSE 0,
               owner |-> ly.owner, first |-> ly.first,
               per |-> [s \in Snaps |-> PerFor(kind, sel, ly, s)], status |-> "Doing", now |-> now, nfail |-> 0]
    IN /\ chg' = c
       /\ status' = [t \in Tasks |-> IF t <= ly.nt THEN "Do" ELSE "Done"]
       /\ chgOf' = [t \in Tasks |-> IF t <= ly.nt THEN 1 ELSE 2]
       /\ lanes' = L
       /\ waits' = W
       /\ hasUndo' = [t \in Tasks |-> t <= ly.nt /\ HasUndoKind(KindOfTask(c, t))]
       /\ rdy' = [c2 \in 1..2 |-> FALSE]
       /\ panicked' = FALSE

Request(kind, txn, sel) ==
    /\ Idle /\ clock < MaxOps
    /\ CanRequestAll(kind, sel)
    /\ LET ly == Layout(kind, sel) IN
       /\ ly.nt <= MaxTasks
       /\ StartMulti(kind, txn, sel, ly, clock + 1, SpecLanes(ly, txn), SpecWaits(ly))
    /\ clock' = clock + 1
    /\ pass' = NoPass
    /\ UNCHANGED <<recs, worlds, env>>

-----------------------------------------------------------------------------
(* Task engine steps (every status change through TaskEngine's operators)   *)

InChange(t) == chgOf[t] = 1
IsSnapTask(t) == InChange(t) /\ chg.owner[t] # 0
SnapOf(t) == chg.sel[chg.owner[t]].snap
IdxOf(t) == t - chg.per[SnapOf(t)].first + 1
TaskOf(t) == chg.per[SnapOf(t)].chain[IdxOf(t)]

ApplyMem(m) == status' = m.st /\ rdy' = m.rdy /\ panicked' = m.pan
graphUnch == UNCHANGED <<waits, lanes, hasUndo, chgOf>>

Running == chg.phase = "run"

(* Ensure passes.  TaskRunner.Ensure holds the state lock for the whole pass, visits every task once (Go map order)  *)
(* and starts every task that can start when visited; the post-handler sections of the goroutines (the "finish"     *)
(* steps) run between passes.  `due` = the tasks that could start when the current pass began and have not been  *)
(* dealt with yet: while one of them can still start, no handler finishes (it cannot get the lock).  A finish step   *)
(* closes the pass; the first pass step after it opens the next one.  Tasks that become startable during a pass      *)
(* (after the abort of a failure on entry, after a NoUndo) may be started in it or in the next one; two passes with  *)
(* no finish step between them are not distinguished.  snapmgr.blockedTask: one "prerequisites" handler at a time.   *)
IsPrereq(t) == IsSnapTask(t) /\ TaskOf(t).k = "prerequisites"
BlockedPrereq(t) == IsPrereq(t) /\ \E u \in Tasks : u # t /\ InChange(u) /\ IsPrereq(u) /\ status[u] \in {"Doing", "Abort"}
Startable(t) == /\ InChange(t)
                /\ \/ status[t] = "Do" /\ ~TE!MustWait(TE!Mem, t) /\ ~BlockedPrereq(t)
                   \/ status[t] = "Undo" /\ ~TE!MustWait(TE!Mem, t)
PassStep(t) == pass' = [open |-> TRUE, due |-> (IF pass.open THEN pass.due ELSE {u \in Tasks : Startable(u)}) \ {t}]
BetweenPasses == \A t \in pass.due : ~Startable(t)
FinishStep == BetweenPasses /\ pass' = NoPass

\* TaskRunner.Ensure -> run(t): Do -> Doing
Start(t) ==
    /\ Running /\ InChange(t) /\ status[t] = "Do" /\ ~TE!MustWait(TE!Mem, t) /\ ~BlockedPrereq(t)
    /\ PassStep(t)
    /\ ApplyMem(TE!SetSt(TE!Mem, t, "Doing"))
    /\ UNCHANGED <<recs, worlds, env, chg, clock>> /\ graphUnch

SetSnap(s, res) == /\ recs' = [recs EXCEPT ![s] = res.rec]
                   /\ worlds' = [worlds EXCEPT ![s] = res.world]

\* the do handler of a snap's task returned nil
FinishDoCore(t, from) ==
    /\ Running /\ IsSnapTask(t) /\ status[t] = from
    /\ FinishStep
    /\ LET s == SnapOf(t)  i == IdxOf(t)  tk == TaskOf(t)  p == chg.per[s] IN
       /\ ~SS!DoFailsItself(recs[s], tk)
       /\ LET res == SS!DoTask(recs[s], worlds[s], p.sup, tk, chg.now) IN
          /\ SetSnap(s, res)
          /\ chg' = [chg EXCEPT !.per[s].loc[i] = res.loc,
                                !.per[s].disc = IF tk.k = "discard-snap" THEN @ \cup {tk.r} ELSE @]
    \* "it was actually Done if it got here": an aborted task that finished goes to Undo
    /\ ApplyMem(TE!SetSt(TE!Mem, t, IF from = "Doing" THEN "Done" ELSE "Undo"))
    /\ UNCHANGED <<env, clock>> /\ graphUnch

FinishDo(t) == FinishDoCore(t, "Doing")
FinishDoAborted(t) == FinishDoCore(t, "Abort")

\* failure modes of the task a snap is at (SnapSeq): on entry, inside a backend operation, or on its own
\* (PartialDiscard -- a failure inside discard-snap of the last revision -- is C11's known finding: not injected here)
OpModesOf(t) == IF OpFaults /\ TaskOf(t).k # "discard-snap" THEN SS!OpModes(recs[SnapOf(t)], TaskOf(t)) ELSE {}

\* the do handler failed (or the task failed on entry: the harness replicates the error branch of
\* TaskRunner.run from a blocked-predicate, while the task is still in Do):
\*     r.abortLanes(t.Change(), t.Lanes()); t.SetStatus(ErrorStatus)
Fail(t, mode) ==
    /\ Running /\ IsSnapTask(t)
    /\ LET s == SnapOf(t)  i == IdxOf(t)  tk == TaskOf(t)  p == chg.per[s] IN
       /\ \/ mode = "self" /\ status[t] \in {"Doing", "Abort"} /\ SS!DoFailsItself(recs[s], tk)
          \/ /\ p.fail.idx = 0 /\ chg.nfail < MaxFaults
             /\ \/ /\ mode = "entry" /\ status[t] = "Do" /\ ~TE!MustWait(TE!Mem, t)
                   /\ ~BlockedPrereq(t)      \* the harness's predicate is consulted after snapmgr.blockedTask
                \/ mode \in OpModesOf(t) /\ status[t] \in {"Doing", "Abort"} /\ ~SS!DoFailsItself(recs[s], tk)
       /\ IF mode = "entry" THEN PassStep(t) ELSE FinishStep
       /\ SetSnap(s, SS!FailTask(recs[s], worlds[s], p.sup, tk, mode))
       /\ chg' = [chg EXCEPT !.per[s].fail = [idx |-> i, mode |-> mode], !.nfail = @ + 1]
    /\ ApplyMem(TE!SetSt(TE!AbortLanesTop(TE!Mem, 1, Range(lanes[t])), t, "Error"))
    /\ UNCHANGED <<env, clock>> /\ graphUnch

\* Ensure -> run(t): Undo -> Undoing (only kinds with an undo handler)
StartUndo(t) ==
    /\ Running /\ InChange(t) /\ status[t] = "Undo" /\ hasUndo[t] /\ ~TE!MustWait(TE!Mem, t)
    /\ PassStep(t)
    /\ ApplyMem(TE!SetSt(TE!Mem, t, "Undoing"))
    /\ UNCHANGED <<recs, worlds, env, chg, clock>> /\ graphUnch

FinishUndo(t) ==
    /\ Running /\ IsSnapTask(t) /\ status[t] = "Undoing"
    /\ FinishStep
    /\ LET s == SnapOf(t)  i == IdxOf(t)  p == chg.per[s] IN
       SetSnap(s, SS!UndoTask(recs[s], worlds[s], p.sup, TaskOf(t), p.loc[i]))
    /\ ApplyMem(TE!SetSt(TE!Mem, t, "Undone"))
    /\ UNCHANGED <<env, chg, clock>> /\ graphUnch

\* Ensure: "Undo without undo handler -> Done" (after mustWait)
NoUndo(t) ==
    /\ Running /\ InChange(t) /\ status[t] = "Undo" /\ ~hasUndo[t] /\ ~TE!MustWait(TE!Mem, t)
    /\ PassStep(t)
    /\ ApplyMem(TE!SetSt(TE!Mem, t, "Done"))
    /\ UNCHANGED <<recs, worlds, env, chg, clock>> /\ graphUnch

\* doCheckReRefresh: Retry until changeReadyUpToTask; then (store mocked: nothing to re-refresh) Done
OthersReady(t) == \A u \in Tasks : (InChange(u) /\ u # t) => TE!IsReadyS(status[u])
FinishRR ==
    /\ Running /\ chg.rr # 0 /\ status[chg.rr] = "Doing" /\ OthersReady(chg.rr)
    /\ FinishStep
    /\ ApplyMem(TE!SetSt(TE!Mem, chg.rr, "Done"))
    /\ UNCHANGED <<recs, worlds, env, chg, clock>> /\ graphUnch
\* aborted in flight (only if its lane 0 is aborted, which the lane rule excludes): Retry + Abort -> tryUndo
AbortHoldRR ==
    /\ Running /\ chg.rr # 0 /\ status[chg.rr] = "Abort"
    /\ FinishStep
    /\ ApplyMem(TE!TryUndo(TE!Mem, chg.rr))
    /\ UNCHANGED <<recs, worlds, env, chg, clock>> /\ graphUnch

AllReady == \A t \in Tasks : InChange(t) => TE!IsReadyS(status[t])

Settle ==
    /\ Running /\ AllReady
    /\ chg' = [chg EXCEPT !.phase = "idle", !.status = TE!ChgStatus(status, 1)]
    /\ pass' = NoPass
    /\ UNCHANGED <<recs, worlds, env, clock, status, rdy, panicked>> /\ graphUnch

-----------------------------------------------------------------------------
(* Model-checked requests                                                   *)

SubSeqOf(S) == SelectSeq(SnapOrder, LAMBDA x : x \in S)
RevChoices(kind) == CASE kind = "install-many" -> InstallRevs
                      [] kind = "update-many"  -> RefreshRevs
                      [] kind = "remove-many"  -> {0}
Sels(kind) ==
    UNION {{[i \in 1..Len(SubSeqOf(S)) |-> [snap |-> SubSeqOf(S)[i], rev |-> f[SubSeqOf(S)[i]]]] : f \in [S -> RevChoices(kind)]}
           : S \in {S \in SUBSET Snaps : Cardinality(S) \in SelSizes}}

FailModes(t) == {"entry", "self"} \cup (IF IsSnapTask(t) THEN OpModesOf(t) ELSE {})

\* a settled, consistent snap with kept revisions `seq` (current = the last one), as install + refreshes leave it
\* (SnapSeq reaches these states; the thorough configurations start from the empty system instead)
RecWith(seq) == IF seq = <<>> THEN SS!EmptyRec
                ELSE [SS!EmptyRec EXCEPT !.seq = seq, !.cur = seq[Len(seq)], !.active = TRUE, !.chan = "latest/stable"]
WorldWith(seq) == IF seq = <<>> THEN SS!EmptyWorld
                  ELSE [mounted |-> Range(seq), linked |-> seq[Len(seq)], data |-> Range(seq), common |-> TRUE]

Init ==
    /\ \E f \in InitCtx : /\ recs = [s \in Snaps |-> RecWith(f[s])]
                          /\ worlds = [s \in Snaps |-> WorldWith(f[s])]
    /\ env = [retain |-> RetainInit, onClassic |-> FALSE, boot |-> {}, kernel |-> FALSE]
    /\ chg = IdleChg
    /\ clock = 0
    /\ pass = NoPass
    /\ status = [t \in Tasks |-> "Done"]
    /\ waits = [t \in Tasks |-> {}]
    /\ lanes = [t \in Tasks |-> <<0>>]
    /\ hasUndo = [t \in Tasks |-> FALSE]
    /\ chgOf = [t \in Tasks |-> 2]
    /\ rdy = [c \in 1..2 |-> FALSE]
    /\ panicked = FALSE

\* Reduction (model checking only).  Once the fault budget of the change is spent, no step of one snap's chain reads
\* or writes anything of another snap's chain (chains are linear, lanes are only read by Fail), so steps of different
\* snaps commute and the settled state does not depend on their order: explore one order only (the chain of the
\* first snap that is not yet quiescent moves).  Before the last fault every interleaving is explored, because the
\* lane abort inside Fail reads the status of every task.  The unreduced run of the same configuration is part of
\* the thorough tier (same invariants, same settled states).
QuiescentPos(i) == \A t \in chg.first[i]..(chg.first[i + 1] - 1) : TE!IsReadyS(status[t])
MayStep(t) == \/ ~Reduce \/ chg.nfail < MaxFaults \/ chg.owner[t] = 0
              \/ \A j \in 1..(chg.owner[t] - 1) : QuiescentPos(j)
AllTasks == IF Running THEN 1..(IF chg.rr # 0 THEN chg.rr ELSE chg.n) ELSE {}
\* (only the sections between passes are ordered: what a pass starts is forced anyway)
TaskRange == {t \in AllTasks : MayStep(t)}

RequestAny == \E kind \in (IF Idle THEN KindOpts ELSE {}) : \E txn \in (IF kind = "remove-many" THEN {FALSE} ELSE TxnOpts) :
                 \E sel \in Sels(kind) : Request(kind, txn, sel)
StartAny == \E t \in AllTasks : Start(t)
FinishDoAny == \E t \in TaskRange : FinishDo(t)
FinishDoAbortedAny == \E t \in TaskRange : FinishDoAborted(t)
FailAny == \E t \in AllTasks : \E mode \in FailModes(t) : (mode = "entry" \/ MayStep(t)) /\ Fail(t, mode)
StartUndoAny == \E t \in AllTasks : StartUndo(t)
FinishUndoAny == \E t \in TaskRange : FinishUndo(t)
NoUndoAny == \E t \in AllTasks : NoUndo(t)

Next == RequestAny \/ StartAny \/ FinishDoAny \/ FinishDoAbortedAny \/ FailAny \/ StartUndoAny \/ FinishUndoAny \/ NoUndoAny
        \/ FinishRR \/ AbortHoldRR \/ Settle

Spec == Init /\ [][Next]_vars

-----------------------------------------------------------------------------
(* Properties.  `chg` keeps, per snap, the pre-state, what was discarded    *)
(* irrevocably and where a fault hit; they are stated for settled changes.  *)

Settled == Idle /\ chg.status \in {"Done", "Error", "Hold", "Undone"}
InOp(s) == chg.per[s].in
Failed(s) == chg.per[s].fail.idx # 0
AnyFailed == \E s \in Snaps : InOp(s) /\ Failed(s)
TasksOfSnap(s) == {t \in Tasks : chgOf[t] = 1 /\ chg.owner[t] # 0 /\ chg.sel[chg.owner[t]].snap = s}

\* C11's clauses for one snap
ConsistentRW(r, w) ==
    IF r.seq # <<>>
       THEN /\ r.cur \in Range(r.seq)
            /\ w.mounted = Range(r.seq)
            /\ (r.active <=> w.linked = r.cur)
            /\ (~r.active => w.linked = 0)
       ELSE /\ r.cur = 0 /\ ~r.active /\ r.cfg = 0 /\ \A x \in 1..MaxRev : r.revcfg[x] = 0
            /\ w.mounted = {} /\ w.linked = 0

\* C10's clauses for one snap (modulo revisions discarded irrevocably before the abort)
RestoredSnap(s) ==
    LET p == chg.per[s].pre.rec  pw == chg.per[s].pre.world  d == chg.per[s].disc  r == recs[s]  w == worlds[s] IN
    /\ SS!Installed(r) = SS!Installed(p)
    /\ r.cur = p.cur
    /\ r.seq = SelectSeq(p.seq, LAMBDA x : x \notin d)
    /\ r.active = p.active /\ r.chan = p.chan
    /\ r.dev = p.dev /\ r.jail = p.jail /\ r.classic = p.classic /\ r.try = p.try
    /\ r.ignv = p.ignv /\ r.cohort = p.cohort
    /\ r.lastRefresh = p.lastRefresh /\ r.inhibited = p.inhibited
    /\ r.cfg = p.cfg
    /\ w.linked = pw.linked
    /\ w.mounted = pw.mounted \ d
    /\ SS!Block(r) = SS!Block(p) \ d

\* the request on this snap took effect completely
CompletedSnap(s) ==
    LET r == recs[s]  w == worlds[s]  sup == chg.per[s].sup IN
    /\ \A t \in TasksOfSnap(s) : status[t] = "Done"
    /\ IF chg.kind = "remove-many"
          THEN r.seq = <<>> /\ r.cur = 0 /\ w.mounted = {} /\ w.linked = 0
          ELSE r.cur = sup.rev /\ r.active /\ w.linked = sup.rev /\ sup.rev \in w.mounted /\ sup.rev \in Range(r.seq)

\* (1) the snap whose lane failed is restored exactly (C10 at the level of a multi-snap change)
FailedSnapRestored ==
    (Settled /\ chg.kind \in {"install-many", "update-many"}) => \A s \in Snaps : (InOp(s) /\ Failed(s)) => RestoredSnap(s)

\* (2) every snap whose lane is healthy completes (C01's healthy-lane clause at the snapstate level)
HealthySnapsComplete ==
    Settled => \A s \in Snaps : (InOp(s) /\ ~Failed(s) /\ (~chg.txn \/ ~AnyFailed)) => CompletedSnap(s)

\* (3) transactional: one failure reverts ALL snaps of the change
AllRevertedIfTransactional ==
    (Settled /\ chg.txn /\ AnyFailed) =>
        \A s \in Snaps : InOp(s) =>
            /\ RestoredSnap(s)
            /\ \A t \in TasksOfSnap(s) : hasUndo[t] => status[t] \in {"Undone", "Hold", "Error"}

\* (4) record and system agree for EVERY snap after every settled change; snaps not named are untouched
ConsistentAll ==
    Idle => \A s \in Snaps :
               /\ ConsistentRW(recs[s], worlds[s])
               /\ (Settled /\ ~InOp(s)) => recs[s] = chg.per[s].pre.rec /\ worlds[s] = chg.per[s].pre.world

\* (5) the change ends in Error exactly when a task failed
ChangeErrorIffFailed == Settled => (chg.status = "Error" <=> AnyFailed) /\ (chg.status = "Done" <=> ~AnyFailed)

\* (6) the lane rule itself, on the graph the change was created with: every task of a snap's chain is in exactly
\* one lane, the same as the first task of that chain; two chains share their lane iff the change is transactional
LaneDiscipline ==
    ~Idle => /\ \A t \in Tasks : (chgOf[t] = 1 /\ chg.owner[t] # 0) =>
                    /\ Len(lanes[t]) = 1 /\ lanes[t][1] # 0
                    /\ lanes[t] = lanes[chg.first[chg.owner[t]]]
             /\ \A i, j \in 1..Len(chg.sel) : i # j => ((lanes[chg.first[i]] = lanes[chg.first[j]]) <=> chg.txn)
             /\ (chg.rr # 0 => lanes[chg.rr] = <<0>>)

\* engine sanity (C03 at this level): no "unexpectedly became unready", ready iff all tasks ready
EngineSane == /\ ~panicked
              /\ (~Idle /\ rdy[1]) => AllReady

TypeOK ==
    /\ \A s \in Snaps : /\ recs[s].cur \in 0..MaxRev /\ Range(recs[s].seq) \subseteq 1..MaxRev
                        /\ Cardinality(Range(recs[s].seq)) = Len(recs[s].seq)
                        /\ worlds[s].mounted \subseteq 1..MaxRev /\ worlds[s].linked \in 0..MaxRev
    /\ status \in [Tasks -> TE!Status]

StateConstraint == clock <= MaxOps
=============================================================================
