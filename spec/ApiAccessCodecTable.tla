------------------------ MODULE ApiAccessCodecTable ------------------------
(* T->I export for C26 (part 2): every initial remote address of ApiAccessCodec.tla, every sequence of     *)
(* <= MaxAttach Attach steps, and what Parse must then return.  Root module of ApiAccessCodec_mc*.cfg.     *)
EXTENDS ApiAccessCodec, SequencesExt, IOUtils, Json

RECURSIVE AttachAll(_, _)
AttachAll(a, s) == IF s = <<>> THEN a ELSE AttachAll(Attach(a, Head(s)), Tail(s))

RECURSIVE Seqs(_)
Seqs(n) == IF n = 0 THEN { <<>> } ELSE LET P == Seqs(n - 1) IN P \cup { Append(s, i) : s \in { p \in P : Len(p) = n - 1 }, i \in Ifaces }

Cases == LET I == SetToSeq(InitialAddrs)  S == SetToSeq(Seqs(MaxAttach)) IN
  [n \in 1..(Len(I) * Len(S)) |->
     LET a == I[((n - 1) \div Len(S)) + 1]  s == S[((n - 1) % Len(S)) + 1]  fin == AttachAll(a, s)  p == Parse(fin) IN
     [shape |-> a.shape, pid |-> a.pid, uid |-> a.uid, sock |-> a.sock, attach |-> s,
      matches |-> Matches(fin), parsed |-> p]]

Table == [cases |-> Cases,
          valid |-> SetToSeq(ValidCreds)]

ASSUME JsonSerialize(IOEnv.VERIF_OUT, Table)
=============================================================================
