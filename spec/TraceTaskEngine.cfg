SPECIFICATION TSpec
CONSTANTS
  N <- TN
  NC <- TNC
  MaxFail = 0
  MaxRetry = 0
  MaxWaitRes = 0
  MaxTime = 0
  MaxRestart = 0
  MaxAbort = 0
INVARIANTS A_C01 A_C02 A_C03 A_C04 SpecMon
POSTCONDITION Accepted
CHECK_DEADLOCK FALSE
