------------------------------ MODULE TimerMenu ------------------------------
(* The bounded input domain for the C16 query check, exported to the Go driver *)
(* (T->I half of the binding): schedule ASTs built from the documented grammar.*)
(* Event set = at most MaxWS week spans from WeekSpanMenu and at most MaxCS     *)
(* clock spans from ClockSpanMenu (not both empty).  The driver renders them    *)
(* with the real String(), parses them back with the real ParseSchedule and     *)
(* combines event sets into timers of one or two event sets.                    *)
EXTENDS TimerWindows, IOUtils, Json

VARIABLE x

WS(swd, spos, ewd, epos) == [swd |-> swd, spos |-> spos, ewd |-> ewd, epos |-> epos]
CS(s, e, split, spread) == [s |-> s, e |-> e, split |-> split, spread |-> spread]

Sun == 0  Mon == 1  Tue == 2  Wed == 3  Thu == 4  Fri == 5  Sat == 6

WeekSpanMenu == <<
    WS(Mon, 0, Mon, 0),      \* mon
    WS(Fri, 0, Fri, 0),      \* fri
    WS(Mon, 1, Mon, 1),      \* mon1
    WS(Fri, 4, Fri, 4),      \* fri4
    WS(Sun, 5, Sun, 5),      \* sun5
    WS(Mon, 1, Fri, 0),      \* mon1-fri
    WS(Mon, 0, Fri, 1),      \* mon-fri1
    WS(Fri, 4, Thu, 0),      \* fri4-thu
    WS(Fri, 0, Mon, 0),      \* fri-mon
    WS(Mon, 1, Mon, 0),      \* mon1-mon
    \* beyond the DESIGN menu: more month-boundary shapes
    WS(Mon, 0, Fri, 0),      \* mon-fri
    WS(Sat, 5, Tue, 0),      \* sat5-tue   (last Saturday to the following Tuesday)
    WS(Wed, 0, Tue, 1),      \* wed-tue1   (Wednesday before the first Tuesday .. first Tuesday)
    WS(Thu, 0, Thu, 5)       \* thu-thu5   (the week ending on the last Thursday)
>>

ClockSpanMenu == <<
    CS(600, 600, 0, FALSE),      \* 10:00
    CS(540, 660, 0, FALSE),      \* 09:00-11:00
    CS(1380, 60, 0, FALSE),      \* 23:00-01:00
    CS(540, 660, 2, TRUE),       \* 09:00~11:00/2
    CS(0, 1440, 4, FALSE),       \* 00:00-24:00/4
    CS(0, 1440, 0, FALSE),       \* "-"  (whole day)
    CS(0, 1440, 2, TRUE),        \* "~/2"
    \* beyond the DESIGN menu: a split span that crosses midnight
    CS(1380, 60, 2, TRUE),       \* 23:00~01:00/2
    \* splits that do not divide the span into whole minutes
    CS(540, 600, 7, FALSE),      \* 09:00-10:00/7
    CS(540, 600, 8, TRUE),       \* 09:00~10:00/8
    CS(0, 1440, 7, FALSE),       \* 00:00-24:00/7
    CS(540, 660, 9, TRUE)        \* 09:00~11:00/9
>>

NWS == IF "VERIF_NWS" \in DOMAIN IOEnv THEN atoi(IOEnv.VERIF_NWS) ELSE Len(WeekSpanMenu)
NCS == IF "VERIF_NCS" \in DOMAIN IOEnv THEN atoi(IOEnv.VERIF_NCS) ELSE Len(ClockSpanMenu)

\* lists of length <= 2 without repetition; order matters only for rendering, so i < j
OrderedLists(menu, n) == {<<>>} \cup {<<menu[i]>> : i \in 1..n}
                  \cup UNION {{<<menu[i], menu[j]>> : j \in (i + 1)..n} : i \in 1..n}

EventSets == {[ws |-> w, cs |-> c] : w \in OrderedLists(WeekSpanMenu, NWS), c \in OrderedLists(ClockSpanMenu, NCS)}
             \ {[ws |-> <<>>, cs |-> <<>>]}

ASSUME \A j \in 1..Len(ClockSpanMenu) : PartsInsideSpan(ClockSpanMenu[j])
ASSUME JsonSerialize(IOEnv.VERIF_OUT, [eventsets |-> EventSets])

Init == x = 0
Next == UNCHANGED x
=============================================================================
