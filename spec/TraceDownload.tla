---------------------------- MODULE TraceDownload ----------------------------
(***************************************************************************)
(* I->T binding for C31: validates NDJSON traces recorded from the real     *)
(* Store.Download (harness/overlay/store/zz_verif_download_test.go) against *)
(* the actions of Download.tla.  One line = one step:                       *)
(*   Open : inputs of a case (also resets the state: many cases per file)   *)
(*   Resp : the server saw a request (observed Range header and the bytes   *)
(*          of the .partial file at that instant) and sent `args`           *)
(*   Done : the outcome of Store.Download (error class, target, partial)    *)
(* The observations must equal the state the spec has computed so far.      *)
(***************************************************************************)
EXTENDS Download, IOUtils, Json

Trace == ndJsonDeserialize(IOEnv.VERIF_TRACE)

VARIABLE l

IsEv(e) == l <= Len(Trace) /\ Trace[l].ev = e /\ l' = l + 1

TOpen == /\ IsEv("Open")
         /\ LET a == Trace[l].args
            IN  Set(OpenResult(a.content, a.partial, a.leave, a.maxatt))

TResp == /\ IsEv("Resp")
         /\ pc = "req"
         /\ LET o == Trace[l].obs
                r == Trace[l].args
            IN  /\ o.hasrange = (resume > 0)          \* Range header iff resume > 0 ...
                /\ o.hasrange => o.range = resume     \* ... and "bytes=<resume>-"
                /\ o.file = partial.bytes             \* the file on disk is the file of the spec
                /\ Set(Respond(Cur, r))

TDone == /\ IsEv("Done")
         /\ pc = "done"
         /\ LET o == Trace[l].obs
            IN  /\ o.ok = (result = "ok")
                /\ o.err = (IF result = "ok" THEN "none" ELSE result)
                /\ o.target = target
                /\ o.partial = partial
         /\ UNCHANGED vars

TInit == /\ l = 1
         /\ content = <<"x">> /\ partial = Absent /\ target = Absent /\ pc = "open" /\ resume = 0
         /\ pos = 0 /\ hash = <<>> /\ attempt = 1 /\ hashRetried = FALSE /\ leave = FALSE
         /\ maxatt = 1 /\ result = "none" /\ nreq = 0

TNext == TOpen \/ TResp \/ TDone

Accepted == TLCGet("stats").diameter - 1 = Len(Trace)
=============================================================================
