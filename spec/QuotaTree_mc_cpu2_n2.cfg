\* CPU quota + cpu-set, 2 groups, NumCPU = 2 < 3 cores nameable in a cpu-set (|set| > NumCPU: CpuRequested and Alloc disagree)
SPECIFICATION Spec
CONSTANTS
  MaxGroups = 2
  MaxDepth = 3
  MaxRoots = 1
  NCPU = 2
  MemVals = {}
  ThrVals = {}
  CpuCounts = {0, 1, 2}
  CpuPcts = {0, 50, 100}
  Cores = {c0, c1, c2}
  OtherVals = {TRUE}
  Paths = {"direct", "merged"}
VIEW View
SYMMETRY CoreSym
INVARIANTS TypeOK InvMem InvThr InvSet InvFitsOrNamed
CHECK_DEADLOCK FALSE
