\* liveness: once the awaited reboot happens the change goes on and settles
SPECIFICATION MCRLive
CONSTANTS
  N = 3
  NC = 1
  MaxFail = 1
  MaxRetry = 0
  MaxWaitRes = 0
  MaxTime = 1
  MaxRestart = 1
  MaxAbort = 0
  MaxBoot = 3
  MaxCalls = 2
  BoundaryChoices <- BoundQuick
  ClassicChoices <- BoolBoth
  TypeChoices <- TypesSys
  DagChoices <- Chain
  BootAnywhere = FALSE
PROPERTY RSettles
CHECK_DEADLOCK FALSE
