--------------------------- MODULE MCTraceSnapshotIO ---------------------------
EXTENDS TraceSnapshotIO
TrKeys == {"a.zip"}
TrSeqs == {<<>>}
TrStrs == {"reg"}
TrEntries == {{"sys"}}
=============================================================================
