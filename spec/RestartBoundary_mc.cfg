\* E03 quick: N=3 tasks, one change, all forward DAGs x boundary marks {none, do, undo} per task x classic/core;
\* one handler failure, one snapd restart without reboot, one reboot, two restart-manager calls.
SPECIFICATION MCRSpec
CONSTANTS
  N = 3
  NC = 1
  MaxFail = 1
  MaxRetry = 0
  MaxWaitRes = 0
  MaxTime = 1
  MaxRestart = 1
  MaxAbort = 0
  MaxBoot = 2
  MaxCalls = 2
  BoundaryChoices <- BoundSome
  ClassicChoices <- BoolBoth
  TypeChoices <- TypesSys
INVARIANTS TypeOK RTypeOK E03a E03b E03c E03d E03e
CHECK_DEADLOCK FALSE
