\* E03 quick: N=3 tasks, one change; chain and fork graphs x 6 boundary markings x classic/core;
\* one handler failure (undo direction), two restart-manager calls, one snapd restart without reboot and one
\* reboot (at points where no handler is in flight).
SPECIFICATION MCRSpec
CONSTANTS
  N = 3
  NC = 1
  MaxFail = 1
  MaxRetry = 0
  MaxWaitRes = 0
  MaxTime = 1
  MaxRestart = 1
  MaxAbort = 0
  MaxBoot = 2
  MaxCalls = 2
  BoundaryChoices <- BoundQuick
  ClassicChoices <- BoolBoth
  TypeChoices <- TypesSys
  DagChoices <- ChainFork
  BootAnywhere = FALSE
VIEW RView
INVARIANTS TypeOK RTypeOK E03a E03b E03c E03d E03e
CHECK_DEADLOCK FALSE
