\* C23 small config: action coverage + DoneInOutcomes (cov) / vacuity monitors that must be violated (vac1, vac2)
SPECIFICATION Spec
CONSTANTS
  Managed = {"m1", "m2"}
  Unmanaged = {"u1"}
  Contents = {"a"}
  Perms = {"644", "600"}
  LinkTargets = {"u1"}
  BadKinds = {"missing"}
  UnmanagedTok = {"none", "f:a:644"}
  DesExtra = {"u1"}
  MaxBad = 1
INVARIANTS NoRemovalFailure

CHECK_DEADLOCK FALSE
