------------------------------ MODULE AtomicFile ------------------------------
(***************************************************************************)
(* C06 - crash consistency of snapd's atomic-write helpers                 *)
(* (osutil/io.go: AtomicFile.commit, AtomicRename, AtomicSymlink; used by  *)
(* overlord/backend.go: overlordStateBackend.Checkpoint).                  *)
(*                                                                         *)
(* Part 1: a small crash-consistency model of ONE directory of a POSIX     *)
(* file system (ext4-like, see "Durability rules").                        *)
(* Part 2: the property (OldOrNew, NoEarlyExposure).                       *)
(* Part 3: WriterSpec - the intended protocol (and named broken variants   *)
(* used as spec-level negative controls).                                  *)
(* Part 4: AnySpec - the universal client (every system-call sequence);    *)
(* TLC proves that a LOCAL discipline on system calls implies crash safety.*)
(* TraceAtomicFile.tla reuses Part 1 and 2 with the system-call sequence   *)
(* that strace recorded from the real code.                                *)
(*                                                                         *)
(* Durability rules (the trusted base; what the file system may do):       *)
(*  D1 file data: write(2)/O_TRUNC/ftruncate change only the volatile      *)
(*     content of an inode.  fsync(fd)/fdatasync(fd) make the volatile     *)
(*     content of THAT inode durable (and nothing else: not the directory, *)
(*     not other inodes).                                                  *)
(*  D2 after a crash an inode holds any "mixture" of its durable and       *)
(*     volatile content: any length between the two lengths, every chunk   *)
(*     position taken from either (for a freshly created file: any prefix  *)
(*     of what was written, including nothing and everything).             *)
(*  D3 directory: create/rename/unlink/symlink change the volatile         *)
(*     directory, each ATOMICALLY (rename never leaves the target name     *)
(*     missing or half set) and they reach the disk IN ORDER (journal):    *)
(*     after a crash the directory is the result of some prefix of the     *)
(*     operations issued since the last fsync of the directory.            *)
(*     fsync(dirfd) makes all of them durable.                             *)
(*  D4 D2 and D3 are independent: a directory entry may become durable     *)
(*     before the data of the inode it names, unless that data was         *)
(*     fsynced before (this is what makes rename-before-fsync unsafe).     *)
(*  D5 symlink(2) creates name and link text atomically.                   *)
(*  D6 metadata that is not content (owner, times, mode) is not modelled.  *)
(*  D7 faults: a system call that returns an error has no effect on the    *)
(*     model state, except a FAILED fsync of a file: it makes nothing      *)
(*     durable and the inode is marked `bad` - its dirty pages may have    *)
(*     been dropped by the kernel, so a later successful fsync of that     *)
(*     inode proves nothing (Linux >= 4.13 reports a write-back error      *)
(*     once).  A failed directory fsync makes nothing durable.             *)
(* Content is abstract: a sequence of chunk identifiers.  Old == <<0>>,    *)
(* New == <<1, .., N>> (N = number of write calls that make up New).       *)
(***************************************************************************)
EXTENDS Naturals, Sequences, FiniteSets, TLC

VARIABLES
  inodes,   \* Seq of [vol: Seq(Nat), dur: Seq(Nat), bad: BOOLEAN]; the index is the inode number
            \* (bad: an fsync of this inode failed, D7)
  dhist,    \* non-empty Seq of directories (function name -> inode number):
            \* dhist[1] is the durable directory, dhist[Len(dhist)] the volatile one,
            \* in between the states after each not yet durable directory operation (D3)
  fds,      \* function fd -> [ino: inode number, 0 = the directory itself; pos: chunks written through this fd]
  crashed,  \* TRUE in the state reached by Crash (= what recovery finds on disk)
  par,      \* case parameters [target, hasold, oldino, oldc, newc]
  pc,       \* WriterSpec only: program counter
  disc      \* AnySpec only: TRUE while every system call so far respected LocalDiscipline

fsvars == <<inodes, dhist, fds, crashed>>
vars == <<inodes, dhist, fds, crashed, par, pc, disc>>

-----------------------------------------------------------------------------
(* Part 1: file system                                                     *)

EmptyFn == <<>>
VDir == dhist[Len(dhist)]
Has(d, n) == n \in DOMAIN d
Bind(d, n, i) == [x \in (DOMAIN d) \cup {n} |-> IF x = n THEN i ELSE d[x]]
Drop(d, n) == [x \in (DOMAIN d) \ {n} |-> d[x]]
NewIno == Len(inodes) + 1
Fresh(c, durable) == [vol |-> c, dur |-> IF durable THEN c ELSE <<>>, bad |-> FALSE]
Durable(c) == Fresh(c, TRUE)
Min(a, b) == IF a <= b THEN a ELSE b
Max(a, b) == IF a >= b THEN a ELSE b

\* open(2) of a name in the directory (only successful calls are modelled)
Open(fd, n, creat, excl, trunc) ==
  /\ ~crashed
  /\ fd \notin DOMAIN fds
  /\ IF Has(VDir, n)
     THEN /\ ~(creat /\ excl)
          /\ dhist' = dhist
          /\ inodes' = IF trunc THEN [inodes EXCEPT ![VDir[n]].vol = <<>>] ELSE inodes
          /\ fds' = (fd :> [ino |-> VDir[n], pos |-> 0]) @@ fds
     ELSE /\ creat
          /\ inodes' = Append(inodes, Fresh(<<>>, FALSE))
          /\ dhist' = Append(dhist, Bind(VDir, n, NewIno))
          /\ fds' = (fd :> [ino |-> NewIno, pos |-> 0]) @@ fds
  /\ UNCHANGED <<crashed, par>>

\* open(2) of the directory itself (to fsync it later)
OpenDir(fd) ==
  /\ ~crashed
  /\ fd \notin DOMAIN fds
  /\ fds' = (fd :> [ino |-> 0, pos |-> 0]) @@ fds
  /\ UNCHANGED <<inodes, dhist, crashed, par>>

\* write(2)/copy_file_range(2)... of one chunk at the fd's position (D1)
Write(fd, c) ==
  /\ ~crashed
  /\ fd \in DOMAIN fds
  /\ fds[fd].ino # 0
  /\ LET i == fds[fd].ino
         p == fds[fd].pos
         v == inodes[i].vol
     IN /\ p <= Len(v)
        /\ inodes' = [inodes EXCEPT ![i].vol = SubSeq(v, 1, p) \o <<c>> \o SubSeq(v, p + 2, Len(v))]
        /\ fds' = [fds EXCEPT ![fd].pos = p + 1]
  /\ UNCHANGED <<dhist, crashed, par>>

\* ftruncate(fd, 0)
Truncate(fd) ==
  /\ ~crashed
  /\ fd \in DOMAIN fds
  /\ fds[fd].ino # 0
  /\ inodes' = [inodes EXCEPT ![fds[fd].ino].vol = <<>>]
  /\ fds' = [fds EXCEPT ![fd].pos = 0]
  /\ UNCHANGED <<dhist, crashed, par>>

\* fsync(2)/fdatasync(2): the inode behind fd (D1), or the directory (D3)
Fsync(fd) ==
  /\ ~crashed
  /\ fd \in DOMAIN fds
  /\ IF fds[fd].ino = 0
     THEN /\ dhist' = <<VDir>>
          /\ inodes' = inodes
     ELSE /\ inodes' = IF inodes[fds[fd].ino].bad THEN inodes        \* D7
                       ELSE [inodes EXCEPT ![fds[fd].ino].dur = inodes[fds[fd].ino].vol]
          /\ dhist' = dhist
  /\ UNCHANGED <<fds, crashed, par>>

\* fsync(2) that returned an error (EIO, late ENOSPC, ...): nothing became durable (D7)
FsyncFail(fd) ==
  /\ ~crashed
  /\ fd \in DOMAIN fds
  /\ inodes' = IF fds[fd].ino = 0 THEN inodes ELSE [inodes EXCEPT ![fds[fd].ino].bad = TRUE]
  /\ UNCHANGED <<dhist, fds, crashed, par>>

\* any other system call that returned an error: no effect (D7)
Failed ==
  /\ ~crashed
  /\ UNCHANGED <<inodes, dhist, fds, crashed, par>>

Close(fd) ==
  /\ ~crashed
  /\ fd \in DOMAIN fds
  /\ fds' = [x \in (DOMAIN fds) \ {fd} |-> fds[x]]
  /\ UNCHANGED <<inodes, dhist, crashed, par>>

\* fchown/fchownat/utimensat/...: no effect on content (D6)
Meta ==
  /\ ~crashed
  /\ UNCHANGED <<inodes, dhist, fds, crashed, par>>

\* rename(2) inside the directory: atomic on the volatile directory (D3)
Rename(a, b) ==
  /\ ~crashed
  /\ Has(VDir, a)
  /\ IF a = b THEN dhist' = dhist
     ELSE dhist' = Append(dhist, Bind(Drop(VDir, a), b, VDir[a]))
  /\ UNCHANGED <<inodes, fds, crashed, par>>

Unlink(a) ==
  /\ ~crashed
  /\ Has(VDir, a)
  /\ dhist' = Append(dhist, Drop(VDir, a))
  /\ UNCHANGED <<inodes, fds, crashed, par>>

\* symlink(2): name and link text appear together (D5)
Symlink(n, c) ==
  /\ ~crashed
  /\ ~Has(VDir, n)
  /\ inodes' = Append(inodes, Fresh(c, TRUE))
  /\ dhist' = Append(dhist, Bind(VDir, n, NewIno))
  /\ UNCHANGED <<fds, crashed, par>>

\* rename(2) of a file from another directory to name n: content unknown to the model and not known durable
RenameIn(n, c) ==
  /\ ~crashed
  /\ inodes' = Append(inodes, Fresh(c, FALSE))
  /\ dhist' = Append(dhist, Bind(VDir, n, NewIno))
  /\ UNCHANGED <<fds, crashed, par>>

\* ---- Crash: the volatile state is replaced by ANY state the durability rules permit ----
Opt(d, v, j) == (IF j <= Len(d) THEN {d[j]} ELSE {}) \cup (IF j <= Len(v) THEN {v[j]} ELSE {})

RECURSIVE Mix(_, _, _)
Mix(d, v, n) == IF n = 0 THEN {<<>>}
                ELSE {Append(p, x) : p \in Mix(d, v, n - 1), x \in Opt(d, v, n)}

\* D2: what inode i may hold after a crash
CrashContents(i) ==
  LET d == inodes[i].dur
      v == inodes[i].vol
  IN IF d = v THEN {v}
     ELSE UNION {Mix(d, v, n) : n \in Min(Len(d), Len(v)) .. Max(Len(d), Len(v))}

\* all ways to pick a crash content for every inode of S (set of functions S -> content)
RECURSIVE Assign(_)
Assign(S) == IF S = {} THEN {EmptyFn}
             ELSE LET i == CHOOSE x \in S : TRUE
                  IN {(i :> c) @@ g : c \in CrashContents(i), g \in Assign(S \ {i})}

Crash ==
  /\ ~crashed
  /\ \E k \in 1 .. Len(dhist) :                       \* D3: some prefix of the pending directory operations
       LET d == dhist[k]
           reach == {d[n] : n \in DOMAIN d}
       IN \E f \in Assign(reach) :                    \* D2, D4: independently for every inode
            /\ dhist' = <<d>>
            /\ inodes' = [i \in 1 .. Len(inodes) |->
                            IF i \in reach THEN Durable(f[i])
                            ELSE Durable(<<>>)]                    \* orphans are reclaimed
  /\ fds' = EmptyFn
  /\ crashed' = TRUE
  /\ UNCHANGED par

-----------------------------------------------------------------------------
(* Part 2: the property                                                    *)

TargetPresent == Has(VDir, par.target)
TargetIno == VDir[par.target]
TargetContent == inodes[TargetIno].vol

\* what a reader of the target finds is exactly Old or exactly New (absent only if there was no Old)
ReadsOldOrNew ==
  IF TargetPresent
  THEN \/ TargetContent = par.newc
       \/ par.hasold /\ TargetContent = par.oldc
  ELSE ~par.hasold

\* "whatever the point of the crash, the file afterwards holds the complete previous or the complete new content"
OldOrNew == crashed => ReadsOldOrNew

\* "temporary files never replace the target before their content is durably written"
NoEarlyExposure ==
  (~crashed /\ TargetPresent /\ TargetIno # par.oldino)
     => /\ inodes[TargetIno].dur = par.newc
        /\ inodes[TargetIno].vol = par.newc

TypeOK ==
  /\ crashed \in BOOLEAN
  /\ Len(dhist) >= 1
  /\ \A k \in 1 .. Len(dhist) : \A n \in DOMAIN dhist[k] : dhist[k][n] \in 1 .. Len(inodes)
  /\ \A fd \in DOMAIN fds : fds[fd].ino \in 0 .. Len(inodes)

MkPar(t, hasold, newc) ==
  [target |-> t, hasold |-> hasold, oldino |-> IF hasold THEN 1 ELSE 0, oldc |-> <<0>>, newc |-> newc]

\* initial file system of a case: the durable Old target (inode 1) if any, nothing else
FsInit(t, hasold) ==
  /\ inodes = IF hasold THEN <<Durable(<<0>>)>> ELSE <<>>
  /\ dhist = <<IF hasold THEN (t :> 1) ELSE EmptyFn>>
  /\ fds = EmptyFn
  /\ crashed = FALSE

-----------------------------------------------------------------------------
(* Part 3: WriterSpec - the protocol of osutil/io.go:AtomicFile (NewAtomicFile, Write*, commit)  *)

CONSTANTS MaxChunks,   \* New consists of 0..MaxChunks chunks
          Variants,    \* subset of {"good","nosync","rename_first","wrongfd","inplace","nodirsync","ignore_fsync_error"}
          MaxFaults    \* number of system calls that may return an error (fsync, write, rename) in one run

O(op, fd, a, b, c) == [op |-> op, fd |-> fd, a |-> a, b |-> b, c |-> c]
Writes(n) == [j \in 1 .. n |-> O("write", 1, "", "", j)]

\* fd 1 = the file, fd 2 = the directory
Prog(variant, n) ==
  CASE variant \in {"good", "ignore_fsync_error"} ->
                                    \* io.go: OpenFile(tmp, O_WRONLY|O_CREATE|O_TRUNC|O_EXCL); Write*; os.Open(dir);
                                    \* aw.Sync(); aw.Close(); os.Rename(tmp, target); dir.Sync(); dir.Close()
         <<O("open", 1, "tmp", "cet", 0)>> \o Writes(n) \o
         <<O("opendir", 2, "", "", 0), O("fsync", 1, "", "", 0), O("close", 1, "", "", 0),
           O("rename", 0, "tmp", "target", 0), O("fsync", 2, "", "", 0), O("close", 2, "", "", 0)>>
    [] variant = "nosync" ->        \* aw.Sync() dropped
         <<O("open", 1, "tmp", "cet", 0)>> \o Writes(n) \o
         <<O("opendir", 2, "", "", 0), O("close", 1, "", "", 0),
           O("rename", 0, "tmp", "target", 0), O("fsync", 2, "", "", 0), O("close", 2, "", "", 0)>>
    [] variant = "rename_first" ->  \* rename before the data is durable
         <<O("open", 1, "tmp", "cet", 0)>> \o Writes(n) \o
         <<O("opendir", 2, "", "", 0), O("rename", 0, "tmp", "target", 0), O("fsync", 1, "", "", 0),
           O("close", 1, "", "", 0), O("fsync", 2, "", "", 0), O("close", 2, "", "", 0)>>
    [] variant = "wrongfd" ->       \* the directory is synced instead of the file
         <<O("open", 1, "tmp", "cet", 0)>> \o Writes(n) \o
         <<O("opendir", 2, "", "", 0), O("fsync", 2, "", "", 0), O("close", 1, "", "", 0),
           O("rename", 0, "tmp", "target", 0), O("fsync", 2, "", "", 0), O("close", 2, "", "", 0)>>
    [] variant = "inplace" ->       \* os.WriteFile-like: truncate and rewrite the target itself, then sync
         <<O("open", 1, "target", "ct", 0)>> \o Writes(n) \o
         <<O("opendir", 2, "", "", 0), O("fsync", 1, "", "", 0), O("close", 1, "", "", 0),
           O("fsync", 2, "", "", 0), O("close", 2, "", "", 0)>>
    [] variant = "nodirsync" ->     \* dir.Sync() dropped
         <<O("open", 1, "tmp", "cet", 0)>> \o Writes(n) \o
         <<O("opendir", 2, "", "", 0), O("fsync", 1, "", "", 0), O("close", 1, "", "", 0),
           O("rename", 0, "tmp", "target", 0), O("close", 2, "", "", 0)>>

HasFlag(s, ch) == \E i \in 1 .. Len(s) : SubSeq(s, i, i) = ch

CloseAll ==
  /\ ~crashed
  /\ fds' = EmptyFn
  /\ UNCHANGED <<inodes, dhist, crashed, par>>

Exec(o) ==
  CASE o.op = "open"      -> Open(o.fd, o.a, HasFlag(o.b, "c"), HasFlag(o.b, "e"), HasFlag(o.b, "t"))
    [] o.op = "opendir"   -> OpenDir(o.fd)
    [] o.op = "write"     -> Write(o.fd, o.c)
    [] o.op = "fsync"     -> Fsync(o.fd)
    [] o.op = "close"     -> Close(o.fd)
    [] o.op = "rename"    -> Rename(o.a, o.b)
    [] o.op = "unlink"    -> Unlink(o.a)
    [] o.op = "unlink_if" -> IF Has(VDir, o.a) THEN Unlink(o.a) ELSE Failed
    [] o.op = "closeall"  -> CloseAll

\* what the writer does after an error: io.go returns it, the caller's deferred Cancel() removes the temp
\* file, every descriptor is closed; the target is never touched
CancelProg == <<O("unlink_if", 0, "tmp", "", 0), O("closeall", 0, "", "", 0)>>

\* pc = <<variant, number of chunks, index of the next op, faults so far, "run" | "cancel">>
CurProg == IF pc[5] = "cancel" THEN CancelProg ELSE Prog(pc[1], pc[2])
WDone == pc[3] > Len(CurProg)

WInit ==
  /\ \E v \in Variants, n \in 0 .. MaxChunks, hasold \in BOOLEAN :
        /\ par = MkPar("target", hasold, [j \in 1 .. n |-> j])
        /\ FsInit("target", hasold)
        /\ pc = <<v, n, 1, 0, "run">>
  /\ disc = TRUE

WStep ==
  /\ ~WDone
  /\ Exec(CurProg[pc[3]])
  /\ pc' = <<pc[1], pc[2], pc[3] + 1, pc[4], pc[5]>>
  /\ UNCHANGED disc

\* the next system call returns an error instead (D7)
WFault ==
  /\ ~WDone
  /\ pc[5] = "run"
  /\ pc[4] < MaxFaults
  /\ LET o == CurProg[pc[3]]
     IN \/ /\ o.op = "fsync"
           /\ FsyncFail(o.fd)
           /\ pc' = IF o.fd = 1 /\ pc[1] # "ignore_fsync_error"
                    THEN <<pc[1], pc[2], 1, pc[4] + 1, "cancel">>          \* `if err := aw.Sync(); err != nil { return err }`
                    ELSE <<pc[1], pc[2], pc[3] + 1, pc[4] + 1, "run">>     \* dir.Sync() failed: returned, nothing to undo;
                                                                          \* or (broken variant) the error is only remembered
        \/ /\ o.op \in {"write", "rename"}
           /\ Failed
           /\ pc' = <<pc[1], pc[2], 1, pc[4] + 1, "cancel">>
  /\ UNCHANGED disc

WCrash == Crash /\ UNCHANGED <<pc, disc>>

\* NOT part of C06 (stronger: durability once the writer has returned without error); used only to show what the
\* directory fsync buys (cfg AtomicFile_mc_matrix.cfg)
DurableWhenDone == (crashed /\ WDone /\ pc[4] = 0) => (TargetPresent /\ TargetContent = par.newc)

WNext == WStep \/ WFault \/ WCrash
WriterSpec == WInit /\ [][WNext]_vars

-----------------------------------------------------------------------------
(* Part 4: AnySpec - the universal client.  Every sequence of system calls over a few names, fds   *)
(* and chunks, with a crash at every point.  `disc` records whether every call so far respected    *)
(* the LOCAL discipline below; TLC proves  disc => crash safe  (lemma DisciplineSafe), i.e. the     *)
(* discipline is what a writer has to follow, in whatever order it issues the other calls.         *)

CONSTANTS AnyNames,      \* names in the directory
          AnyFileFds,    \* fds used for files
          AnyDirFds,     \* fds used for the directory
          AnyChunks,     \* New has 1..AnyChunks chunks; writes use chunk ids 1..AnyChunks
          AnyMaxInodes, AnyMaxHist, AnyMaxLen,
          AnyMaxSteps,   \* number of system calls explored (pc[2] counts them)
          AnyFaults      \* BOOLEAN: fsync may also fail (D7)
AnyFds == AnyFileFds \cup AnyDirFds

\* inodes that some possibly-durable directory shows under the target name
Exposed == {dhist[k][par.target] : k \in {j \in 1 .. Len(dhist) : Has(dhist[j], par.target)}}
IsNewDurable(i) == inodes[i].dur = par.newc /\ inodes[i].vol = par.newc

OkOpen(n, creat, trunc) ==
  IF Has(VDir, n) THEN (trunc => VDir[n] \notin Exposed) ELSE n # par.target
OkWrite(fd) == fds[fd].ino \notin Exposed
OkRename(a, b) == a # par.target /\ (b = par.target => IsNewDurable(VDir[a]))
OkUnlink(a) == a # par.target

AnyInit ==
  /\ \E n \in 1 .. AnyChunks, hasold \in BOOLEAN :
        /\ par = MkPar("target", hasold, [j \in 1 .. n |-> j])
        /\ FsInit("target", hasold)
  /\ pc = <<"any", 0, 0>>
  /\ disc = TRUE

AnyStep ==
  \/ \E fd \in AnyFileFds, n \in AnyNames, creat \in BOOLEAN, excl \in BOOLEAN, trunc \in BOOLEAN :
        /\ Has(VDir, n) \/ (Len(inodes) < AnyMaxInodes /\ Len(dhist) < AnyMaxHist)
        /\ Open(fd, n, creat, excl, trunc)
        /\ disc' = (disc /\ OkOpen(n, creat, trunc))
  \/ \E fd \in AnyDirFds : OpenDir(fd) /\ disc' = disc
  \/ \E fd \in AnyFileFds, c \in 1 .. AnyChunks :
        /\ fd \in DOMAIN fds /\ fds[fd].ino # 0 /\ fds[fd].pos < AnyMaxLen
        /\ Write(fd, c)
        /\ disc' = (disc /\ OkWrite(fd))
  \/ \E fd \in AnyFds : Fsync(fd) /\ disc' = disc
  \/ \E fd \in AnyFds : AnyFaults /\ FsyncFail(fd) /\ disc' = disc
  \/ \E fd \in AnyFds : Close(fd) /\ disc' = disc
  \/ \E a \in AnyNames, b \in AnyNames :
        /\ Len(dhist) < AnyMaxHist
        /\ Rename(a, b)
        /\ disc' = (disc /\ OkRename(a, b))
  \/ \E a \in AnyNames :
        /\ Len(dhist) < AnyMaxHist
        /\ Unlink(a)
        /\ disc' = (disc /\ OkUnlink(a))

AnySys == pc[2] < AnyMaxSteps /\ AnyStep /\ pc' = <<"any", pc[2] + 1, 0>>
AnyCrash == Crash /\ UNCHANGED <<pc, disc>>
AnyNext == AnySys \/ AnyCrash
AnySpec == AnyInit /\ [][AnyNext]_vars

\* a writer that broke the discipline is not explored further (its states are still checked)
AnyConstraint == disc

\* the lemma: local discipline => every crash leaves Old or New, and nothing is exposed early
DisciplineSafe == disc => (OldOrNew /\ NoEarlyExposure)

\* vacuity: the universal client does complete a disciplined atomic write (TLC must VIOLATE this)
NeverCompletes == ~(disc /\ ~crashed /\ TargetPresent /\ TargetIno # par.oldino /\ Len(dhist) = 1)
=============================================================================
