\* I->T validation of real histories on the timeNow (bumped) path: all C08 invariants at every recorded state
SPECIFICATION TSpec
CONSTANTS
  Users = {0, 1000, 1001}
  Types = {"change-update", "warning", "snap-run-inhibit"}
  Keys = {"k1", "k2", "k3"}
  RepeatAfters = {0, 2, 5}
  Data = {"", "d1", "d2"}
  Clients = {"c1", "c2", "c3"}
  CfgChoices = {}
  ClockValues <- TraceClock
  MaxAdds = 100000
  Bump = TRUE
  BroadcastRepeat = TRUE
  AddAtTimes = {}
  ClockRegress = TRUE
INVARIANTS
  TypeOK
  UniqueNotices
  ExactlyOnce
  InOrder
  NoPhantom
  Ownership
  DaemonOwnership
  PublicToAll
  RepeatAfterSuppression
  StrictTimes
  NoLostWakeup
PROPERTIES
  TPollDrainsProp
  TNoPhantomProp
  TRepeatAfterProp
POSTCONDITION Accepted
CHECK_DEADLOCK FALSE
