\* generated layout, edit by hand if needed. Download_mc_fixed.cfg
CONSTANTS
  Sizes = {2, 3}
  MaxFile = 4
  MaxReq = 3
  AttemptLimits = {2}
  RedirChoices = {FALSE}
  TruncateOnRestart = TRUE
INIT Init
NEXT Next
CHECK_DEADLOCK FALSE
INVARIANTS
  TypeOK
  FailureLeavesNoTarget
  SuccessPlacesTarget
  FailureRemovesPartial
  HashIsFilePrefix
  TargetHasContentPrefix
  TargetOnlyIfCorrect
