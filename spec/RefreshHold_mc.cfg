\* quick exhaustive config: 3 snaps (a, b gate; c only held), default durations only, boundary ticks, 4 steps
\* (reaches e.g. Hold(a,{c}); Tick(49); Proceed(b,{}); Hold(a,{c}))
CONSTANTS
  Snaps <- MCSnaps3
  Gaters <- MCGaters
  HoldSets <- MCHoldSets3Q
  Ticks <- MCTicksQ
  SysDurs <- MCSysDurs
  ExplicitDurs <- MCNoDurs
  MaxSteps = 4
INIT Init
NEXT Next
CHECK_DEADLOCK FALSE
INVARIANTS TypeOK OtherBound GlobalBound UntilBound RefusedAtBound SystemSurvivesRefresh SystemLasts
