\* quick exhaustive config: 2 snaps (both gate), default durations only, boundary ticks
CONSTANTS
  Snaps <- MCSnaps2
  Gaters <- MCGaters
  HoldSets <- MCHoldSetsQ
  Ticks <- MCTicksQ
  SysDurs <- MCSysDurs
  ExplicitDurs <- MCNoDurs
  MaxSteps = 4
INIT Init
NEXT Next
CHECK_DEADLOCK FALSE
INVARIANTS TypeOK OtherBound GlobalBound UntilBound RefusedAtBound SystemSurvivesRefresh SystemLasts
