\* C35 laws on the reference. One state per input of the bounded domain (revisions -12..12 + boundary,
\* strings of length <= VERIF_MAXLEN (IOEnv, default 3) over {0 1 2 x - + . *} + fixed words,
\* 86 x 86 raw epochs + boundary shapes, 289 CanRead epochs x 289 partners).
INIT Init
NEXT Next
CHECK_DEADLOCK FALSE
INVARIANT RevRoundTrip
INVARIANT RevInjective
INVARIANT RevParseCanonical
INVARIANT RevCanonIffSyntax
INVARIANT RevRejects
INVARIANT RevJSONString
INVARIANT SelfRead
INVARIANT ValidHasLists
INVARIANT JSONRoundTrip
INVARIANT StringRoundTrip
INVARIANT OnlyValidRoundTrip
INVARIANT ParsedIsValid
INVARIANT ShapesDecided
INVARIANT ShortForms
INVARIANT CanReadLaw
