-------------------------- MODULE TraceRefreshTimer --------------------------
(* I->T: a recorded run of the real autoRefresh.Ensure (driver:                *)
(* harness/overlay/snapstate/zz_verif_timer_test.go) must be a behaviour of    *)
(* RefreshTimer.tla with the concrete calendar semantics of the timer, and     *)
(* must satisfy its invariants at every recorded state.                        *)
(*   VERIF_SCHEDS: NDJSON [id, str, timer] (AST of the real ParseSchedule)     *)
(*   VERIF_TRACE : NDJSON events                                               *)
(*     Restart                       a fresh autoRefresh (and a fresh state)    *)
(*     Env    sched last hold inflight next poked   the world before the pass   *)
(*     Ensure now0 now1 out metered next last hold inflight attempted           *)
(*            the pass ran between instants now0 and now1; post-state           *)
(* Times: seconds since 2018-01-01T00:00:00Z, -1 = zero time.                   *)
EXTENDS Integers, Sequences, TLC, IOUtils, Json

Trace  == ndJsonDeserialize(IOEnv.VERIF_TRACE)
Timers == ndJsonDeserialize(IOEnv.VERIF_SCHEDS)

VARIABLES now, sched, lastRefresh, holdUntil, inFlight, nextRefresh, lastSched, lastAttempt, ensured, mon,
          l,      \* next line of the trace
          clk     \* the clock has been read for the Ensure line l

TW == INSTANCE TimerWindows

\* concrete windows of timer number s that end at/after lo and start at/before hi
TraceWinOf(s, lo, hi) ==
    {w \in TW!TimerWindows(Timers[s].timer, (lo \div 86400) - 2, (hi \div 86400) + 1) : w.e >= lo /\ w.s <= hi}

RT == INSTANCE RefreshTimer WITH MaxP <- 95 * 86400, Hour <- 3600, Retry <- 1200, None <- -1, NoSched <- 0,
                                 WinOf <- TraceWinOf

tvars == <<now, sched, lastRefresh, holdUntil, inFlight, nextRefresh, lastSched, lastAttempt, ensured, mon, l, clk>>

IsEv(e) == l <= Len(Trace) /\ Trace[l].ev = e /\ l' = l + 1
Ev == Trace[l]

TInit ==
    /\ l = 1 /\ clk = FALSE
    /\ now = 0 /\ sched = 0
    /\ lastRefresh = -1 /\ holdUntil = -1 /\ inFlight = FALSE
    /\ nextRefresh = -1 /\ lastSched = 0 /\ lastAttempt = -1
    /\ ensured = FALSE
    /\ mon = RT!Mon0

\* a fresh autoRefresh on a fresh state
TRestart ==
    /\ IsEv("Restart")
    /\ nextRefresh' = -1 /\ lastSched' = 0 /\ lastAttempt' = -1
    /\ lastRefresh' = -1 /\ holdUntil' = -1 /\ inFlight' = FALSE
    /\ mon' = RT!Mon0
    /\ UNCHANGED <<now, sched, ensured, clk>>

\* the environment (driver) rewrites the world; nextRefresh must be what the spec predicts unless
\* the driver moved it ("poked": stands for time having passed since it was computed)
TEnv ==
    /\ IsEv("Env")
    /\ sched' = Ev.sched /\ lastRefresh' = Ev.last /\ holdUntil' = Ev.hold /\ inFlight' = Ev.inflight
    /\ IF Ev.poked THEN nextRefresh' = Ev.next /\ mon' = [mon EXCEPT !.base = -1, !.imm = FALSE]
       ELSE nextRefresh = Ev.next /\ UNCHANGED <<nextRefresh, mon>>
    /\ UNCHANGED <<now, lastSched, lastAttempt, ensured, clk>>

\* the pass read the clock somewhere in now0..now1: composed of a silent "time passes" step (TClock)
\* and one Ensure branch of the spec (TEnsure), whose post-state must be the recorded one
Post(e) ==
    /\ nextRefresh' = e.next /\ lastRefresh' = e.last /\ holdUntil' = e.hold /\ inFlight' = e.inflight
    /\ (lastAttempt' # lastAttempt) = e.attempted

TClock ==
    /\ l <= Len(Trace) /\ Trace[l].ev = "Ensure" /\ ~Trace[l].slow /\ ~clk
    /\ \E n \in Trace[l].now0..Trace[l].now1 : n >= now /\ now' = n
    /\ clk' = TRUE /\ ensured' = FALSE
    /\ UNCHANGED <<sched, lastRefresh, holdUntil, inFlight, nextRefresh, lastSched, lastAttempt, mon, l>>

TEnsure ==
    /\ IsEv("Ensure") /\ clk /\ clk' = FALSE
    /\ LET e == Ev
           D == {0, e.next - now} \cap Nat
       IN /\ \/ RT!EnsureInFlight
             \/ \E d1 \in D : RT!EnsureHeld(d1)
             \/ \E d1, d2 \in D : RT!EnsureWait(d1, d2)
             \/ e.metered /\ \E d1, d2 \in D : RT!EnsureMeteredSkip(d1, d2)
             \/ \E d1, d2 \in D : RT!EnsureTooSoon(d1, d2)
             \/ (~e.metered \/ lastRefresh = -1 \/ now - lastRefresh >= 95 * 86400) /\
                \E d1, d2 \in D : RT!EnsureLaunch(d1, d2, e.out, e.inflight, e.hold)
          /\ Post(e)

\* a pass that took so long that the clock readings inside it cannot be bracketed to a second
\* (overloaded machine): the recorded post-state is taken as given, nothing is checked for it
TEnsureSlow ==
    /\ IsEv("Ensure") /\ Ev.slow
    /\ nextRefresh' = Ev.next /\ lastRefresh' = Ev.last /\ holdUntil' = Ev.hold /\ inFlight' = Ev.inflight
    /\ now' = Ev.now1 /\ lastSched' = sched /\ ensured' = TRUE
    /\ lastAttempt' = IF Ev.attempted THEN Ev.now1 ELSE lastAttempt
    /\ mon' = [mon EXCEPT !.base = -1, !.imm = FALSE]
    /\ UNCHANGED <<sched, clk>>

TNext == TRestart \/ TEnv \/ TClock \/ TEnsure \/ TEnsureSlow
TSpec == TInit /\ [][TNext]_tvars

\* every recorded state satisfies the protocol invariants
NextInWindowOrAtLimit   == RT!NextInWindowOrAtLimit
NoWindowPastLimit       == RT!NoWindowPastLimit
LaunchInWindowOrAtLimit == RT!LaunchInWindowOrAtLimit

\* all lines consumed on some path (TClock steps are silent: use a high-water mark instead of the diameter)
HighWater == TLCSet(1, IF TLCGet(1) > l THEN TLCGet(1) ELSE l)
ASSUME TLCSet(1, 0)
Accepted == IF TLCGet(1) = Len(Trace) + 1 THEN TRUE ELSE PrintT(<<"STUCK", TLCGet(1)>>) /\ FALSE
=============================================================================
