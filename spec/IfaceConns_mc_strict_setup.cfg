\* EXPECTED TO FAIL (named deviation D2): conns/repository restored, with Setup faults; the counterexample is replayed on the real code
SPECIFICATION Spec
CONSTANTS
  MaxOps = 1
  SetupFaults = TRUE
  WorldNames = {"W1"}
INVARIANTS StrictFailureRestores
CHECK_DEADLOCK FALSE
