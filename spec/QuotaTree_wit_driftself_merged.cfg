\* witness search: TLC is asked to REFUTE "NoDriftSelf" using only the "merged" update path; the shortest
\* counterexample is replayed on the real code by props/c36.py (expected: the real code accepts it and the
\* real forest violates the statement)
SPECIFICATION Spec
CONSTANTS
  MaxGroups = 3
  MaxDepth = 3
  MaxRoots = 1
  NCPU = 3
  MemVals = {}
  ThrVals = {}
  CpuCounts = {0, 1}
  CpuPcts = {50, 100}
  Cores = {0, 1}
  OtherVals = {TRUE}
  Paths = {"merged"}
VIEW View
INVARIANTS NoDriftSelf
CHECK_DEADLOCK FALSE
