#!/usr/bin/env python3
"""Warm the Go build cache for the in-package (overlay) harnesses: compile the test binaries' dependencies of
the /repo packages our overlay drivers live in. Best effort; a failure here never fails setup."""
import os
import subprocess
import sys

sys.path.insert(0, os.path.dirname(os.path.dirname(os.path.abspath(__file__))))
from lib import common, goharness  # noqa: E402

PKGS = ["overlord/snapstate", "overlord/ifacestate", "daemon", "boot", "asserts", "store", "timeutil",
        "overlord/hookstate/ctlcmd", "overlord/snapshotstate/backend", "overlord/registrystate", "snap/quota"]
env = dict(os.environ)
env.update(common.GOENV)
cmd = ["go", "test", "-tags", "verif", "-vet=off", "-count=1", "-run", "^$"] + ["./" + p for p in PKGS]
subprocess.run(cmd, cwd=common.REPO, env=env, stdout=subprocess.DEVNULL, stderr=subprocess.DEVNULL)
env["CGO_CFLAGS"] = "-I" + goharness.SHIM
subprocess.run(["go", "test", "-tags", "verif", "-vet=off", "-count=1", "-run", "^$", "./cmd/snap-update-ns"],
               cwd=common.REPO, env=env, stdout=subprocess.DEVNULL, stderr=subprocess.DEVNULL)
print("overlay packages warmed")
