#!/usr/bin/env python3
"""Merge seeded/.first_results_r2.json (first outcome of a round-2 seed that was missed / gave exit 2) into the
`history` list of seeded/<name>/meta.json, so that tools/seeded_table.py shows "missed at first -> strengthened -> caught"."""
import json, os
V = os.path.dirname(os.path.dirname(os.path.abspath(__file__)))
first = json.load(open(os.path.join(V, "seeded", ".first_results_r2.json")))
for name, f in sorted(first.items()):
    p = os.path.join(V, "seeded", name, "meta.json")
    if not os.path.exists(p):
        print(name, "no meta yet"); continue
    m = json.load(open(p))
    h = [x for x in m.get("history", []) if x.get("what", "").startswith("exit") and len(x.get("what", "")) < 8]
    # drop the automatic "exit N" entries, keep one descriptive first entry
    m["history"] = [{"rc": f["rc"], "detected": False, "what": f["what"]}]
    json.dump(m, open(p, "w"), indent=1)
    print(name, "patched; now detected =", m.get("confirmed_by_lead", {}).get("check", {}).get("detected"))
