#!/usr/bin/env python3
"""seed_verify.py <ID> [--src /tmp/seed/<ID>/SEED] [--tier quick] [--skip-demo] [--name NAME]

Confirm a seeded property-breaking change (patch.diff + demo + meta.json) in a scratch worktree of /repo:
  1. the patch applies and the touched packages compile,
  2. the demonstration fails with the change and passes without it,
  3. run ./check <ID> with VERIF_REPO=<worktree>: expect exit 1 + VIOLATION,
then store it as /verif/seeded/<name>/ (patch.diff, demo, meta.json with what was run) and remove the worktree.
"""
import argparse
import json
import os
import re
import shutil
import subprocess
import sys
import time

V = os.path.dirname(os.path.dirname(os.path.abspath(__file__)))
ENV = dict(os.environ, GOFLAGS="-mod=mod", GOPROXY="off", GOSUMDB="off", GOTOOLCHAIN="local",
           CGO_CFLAGS="-I/verif/harness/c/shim")


def sh(cmd, cwd, timeout=3600, env=None):
    p = subprocess.run(cmd, cwd=cwd, shell=isinstance(cmd, str), env=env or ENV, stdout=subprocess.PIPE,
                       stderr=subprocess.STDOUT, timeout=timeout)
    return p.returncode, p.stdout.decode("utf-8", "replace")


def main():
    ap = argparse.ArgumentParser()
    ap.add_argument("pid")
    ap.add_argument("--src")
    ap.add_argument("--tier", default="quick")
    ap.add_argument("--skip-demo", action="store_true")
    ap.add_argument("--skip-check", action="store_true")
    ap.add_argument("--name")
    ap.add_argument("--seed", default="1")
    a = ap.parse_args()
    pid = a.pid
    src = a.src or "/tmp/seed/%s/SEED" % pid
    name = a.name or pid
    meta = json.load(open(os.path.join(src, "meta.json")))
    wt = "/var/tmp/sv_%s" % name
    subprocess.run(["git", "-C", "/repo", "worktree", "remove", "--force", wt], stdout=subprocess.DEVNULL, stderr=subprocess.DEVNULL)
    shutil.rmtree(wt, ignore_errors=True)
    rc, o = sh(["git", "-C", "/repo", "worktree", "add", "--detach", wt, "HEAD"], "/")
    if rc:
        print(o)
        return 2
    report = {"property": pid, "name": name, "ran_at": time.strftime("%Y-%m-%d %H:%M"), "repo_head": sh("git rev-parse --short HEAD", "/repo")[1].strip()}
    try:
        patch = os.path.join(src, "patch.diff")
        rc, o = sh(["git", "apply", "--check", patch], wt)
        if rc:
            print("PATCH DOES NOT APPLY:\n" + o)
            report["applies"] = False
            return 3
        files = [l[6:] for l in open(patch).read().split("\n") if l.startswith("+++ b/")]
        pkgs = sorted({"./" + os.path.dirname(f) for f in files if f.endswith(".go")})
        report["files_changed"] = files
        demo_res = {}
        if not a.skip_demo:
            # demo without the change
            dest = meta.get("demo_dest")
            demo_files = [f for f in os.listdir(src) if f not in ("patch.diff", "meta.json")]
            def place():
                if dest and len(demo_files) == 1 and os.path.isfile(os.path.join(src, demo_files[0])):
                    os.makedirs(os.path.dirname(os.path.join(wt, dest)), exist_ok=True)
                    shutil.copy(os.path.join(src, demo_files[0]), os.path.join(wt, dest))
                elif dest:
                    for f in demo_files:
                        s = os.path.join(src, f)
                        d = os.path.join(wt, dest if dest.endswith("/") or os.path.isdir(s) else os.path.dirname(dest), f if not os.path.isdir(s) else "")
                        if os.path.isdir(s):
                            shutil.copytree(s, os.path.join(wt, dest), dirs_exist_ok=True)
                        else:
                            os.makedirs(os.path.dirname(d), exist_ok=True)
                            shutil.copy(s, d)
            place()
            shutil.copytree(src, os.path.join(wt, "SEED"), dirs_exist_ok=True)   # demo commands may refer to SEED/...
            cmd = meta.get("demo_cmd", "")
            cmd = cmd.replace("/tmp/seed/%s" % pid, wt).replace("/tmp/seed2/%s" % pid, wt)
            cmd = re.sub(r'cd <[^>]*>\s*&&\s*', '', cmd)
            rc0, o0 = sh(cmd, wt, timeout=3000)
            demo_res["without_change"] = {"rc": rc0, "tail": o0[-600:]}
            sh(["git", "apply", patch], wt)
            rc1, o1 = sh(cmd, wt, timeout=3000)
            demo_res["with_change"] = {"rc": rc1, "tail": o1[-600:]}
            demo_res["cmd"] = cmd
            demo_res["confirmed"] = (rc0 == 0 and rc1 != 0)
            print("DEMO without rc=%s with rc=%s confirmed=%s" % (rc0, rc1, demo_res["confirmed"]))
            # remove demo files again so that the check sees only the production change
            sh("git clean -fdq", wt)
        else:
            sh(["git", "apply", patch], wt)
        rc, o = sh(["go", "build"] + (pkgs or ["./..."]), wt, timeout=3000)
        report["compiles"] = (rc == 0)
        if rc:
            print("DOES NOT COMPILE:\n" + o[-2000:])
        report["demo"] = demo_res
        if not a.skip_check:
            t0 = time.time()
            env = dict(os.environ, VERIF_REPO=wt)
            rc, o = sh(["./check", pid, "--tier", a.tier, "--seed", a.seed], V, timeout=7200, env=env)
            viol = [l for l in o.split("\n") if l.startswith("VIOLATION") or l.startswith("  ")][:8]
            infra = [l for l in o.split("\n") if l.startswith("INFRA-ERROR")][:2]
            report["check"] = {"cmd": "VERIF_REPO=<worktree with patch> ./check %s --tier %s --seed %s" % (pid, a.tier, a.seed),
                               "rc": rc, "wall_s": round(time.time() - t0), "violation_lines": viol, "infra": infra,
                               "detected": rc == 1 and any(l.startswith("VIOLATION") for l in viol)}
            print("CHECK rc=%s detected=%s wall=%ss" % (rc, report["check"]["detected"], report["check"]["wall_s"]))
            for l in (viol + infra)[:6]:
                print("   " + l[:300])
            open("/var/tmp/sv_%s.check.log" % name, "w").write(o)
        dst = os.path.join(V, "seeded", name)
        os.makedirs(dst, exist_ok=True)
        for f in os.listdir(src):
            s = os.path.join(src, f)
            if os.path.isdir(s):
                shutil.copytree(s, os.path.join(dst, f), dirs_exist_ok=True)
            elif f != "meta.json":
                shutil.copy(s, dst)
        history = []
        oldp = os.path.join(dst, "meta.json")
        if os.path.exists(oldp):
            try:
                old = json.load(open(oldp))
                history = old.get("history", [])
                oc = old.get("confirmed_by_lead", {}).get("check")
                if oc and not a.skip_check:
                    history.append({"ran_at": old["confirmed_by_lead"].get("ran_at"), "rc": oc.get("rc"),
                                    "detected": oc.get("detected"), "infra": oc.get("infra"),
                                    "what": "exit %s" % oc.get("rc")})
                if a.skip_check and old.get("confirmed_by_lead", {}).get("check"):
                    report["check"] = old["confirmed_by_lead"]["check"]
            except Exception:
                pass
        meta_out = {"breaks_property": pid, "history": history, "seeded_by": "fresh sub-agent given only the property text and a scratch worktree",
                    "summary": meta.get("summary"), "why_it_breaks": meta.get("why_it_breaks"),
                    "needs_to_manifest": meta.get("needs_to_manifest"), "files_changed": files,
                    "demo_dest": meta.get("demo_dest"), "demo_cmd": meta.get("demo_cmd"),
                    "seeder_reported": {k: meta.get(k) for k in ("package_tests_run", "package_tests_pass_with_change", "notes")},
                    "confirmed_by_lead": report}
        json.dump(meta_out, open(os.path.join(dst, "meta.json"), "w"), indent=1)
    finally:
        subprocess.run(["git", "-C", "/repo", "worktree", "remove", "--force", wt], stdout=subprocess.DEVNULL, stderr=subprocess.DEVNULL)
        shutil.rmtree(wt, ignore_errors=True)
    return 0


if __name__ == "__main__":
    sys.exit(main())
