#!/usr/bin/env python3
"""Generate /verif/MANIFEST.json from tools/manifest_src.json (per-property metadata).

A property is *claimed* iff manifest_src.json marks it "ready": true AND props/<id>.py exists; everything else
goes to not_applicable with its reason, so MANIFEST.json is valid at all times.
"""
import json
import os

HERE = os.path.dirname(os.path.abspath(__file__))
VERIF = os.path.dirname(HERE)

src = json.load(open(os.path.join(HERE, "manifest_src.json")))
props = [json.loads(l) for l in open(os.path.join(VERIF, "properties.jsonl")) if l.strip()]

checks = []
na = []
engines = {}
for p in props:
    pid = p["id"]
    m = src["properties"].get(pid, {})
    have = os.path.exists(os.path.join(VERIF, "props", pid.lower() + ".py"))
    if m.get("ready") and have:
        c = {
            "property_id": pid,
            "quick_cmd": "./check %s --tier quick" % pid,
            "thorough_cmd": "./check %s --tier thorough" % pid,
            "evidence_file": "evidence/%s.json" % pid,
            "replay_cmd_template": "./check %s --replay {path}" % pid,
            "engine": m.get("engine", "tlc+go"),
            "level_claimed": {
                "category": m["level"],
                "text": m["text"],
                "design_ref": m.get("design_ref", "DESIGN.md"),
            },
            "level_note": m["note"],
            "technique": m.get("technique", "TLA+ spec checked by TLC, bound to the code by trace validation / replay"),
        }
        checks.append(c)
        engines.setdefault(m.get("engine", "tlc+go"), []).append(pid)
    else:
        na.append({"property_id": pid, "reason": m.get("na_reason", "check not built yet in this tree; not claimed")})

man = {
    "version": 1,
    "setup_cmd": "./setup.sh",
    "hooks": src["hooks"],
    "engines": [
        {"name": name, "path": src["engines"].get(name, {}).get("path", "lib/"),
         "serves_properties": pids, "kind_free_text": src["engines"].get(name, {}).get("kind", "")}
        for name, pids in sorted(engines.items())
    ],
    "checks": checks,
    "notes": src.get("notes", ""),
    "not_applicable": na,
}
with open(os.path.join(VERIF, "MANIFEST.json"), "w") as f:
    json.dump(man, f, indent=1)
    f.write("\n")
print("MANIFEST.json: %d checks, %d not_applicable" % (len(checks), len(na)))
