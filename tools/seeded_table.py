#!/usr/bin/env python3
"""Regenerate DESIGN.md section 17.2 (independently seeded changes) from /verif/seeded/*/meta.json."""
import glob
import json
import os
import re

V = os.path.dirname(os.path.dirname(os.path.abspath(__file__)))
rows = []
for f in sorted(glob.glob(os.path.join(V, "seeded", "*", "meta.json"))):
    m = json.load(open(f))
    name = os.path.basename(os.path.dirname(f))
    c = m.get("confirmed_by_lead", {})
    chk = c.get("check", {})
    demo = c.get("demo", {})
    hist = m.get("history", [])
    first = hist[0] if hist else None
    status = "caught (exit 1)" if chk.get("detected") else ("exit %s" % chk.get("rc"))
    if first and not first.get("detected") and chk.get("detected"):
        status = "missed at first (%s) → check strengthened → caught" % first.get("what", "exit %s" % first.get("rc"))
    by = ""
    for l in chk.get("violation_lines", []):
        if l.startswith("  "):
            by = l.strip()[:140].replace("|", "/")
            break
    need = (m.get("needs_to_manifest") or "").replace("\n", " ").replace("|", "/")
    if len(need) > 260:
        need = need[:257] + "..."
    summ = (m.get("summary") or "").replace("\n", " ").replace("|", "/")
    if len(summ) > 200:
        summ = summ[:197] + "..."
    rows.append("| %s | %s | %s — needs: %s | %s%s | %s | demo confirmed: %s |" % (
        name, m.get("breaks_property"), summ, need, status, (" — " + by) if by else "", "quick",
        "yes" if demo.get("confirmed") else "see meta.json"))

n_first = sum(1 for r in rows if "| caught (exit 1)" in r)
n_later = sum(1 for r in rows if "missed at first" in r)
n_open = len(rows) - n_first - n_later
summary = ("**Summary.** %d seeded changes (two rounds, `<id>` = round 1, `<id>-r2` = round 2, each round one per property, "
           "round 2 asked for a different mechanism / trigger kind than round 1): %d were caught by the registered quick check as "
           "it stood; %d were missed at first (exit 0, or exit 2 where a divergence from the specification was seen but no statement-level "
           "oracle fired) and are caught now after the check was strengthened; %d are not caught. No seeded change is used as a "
           "special case anywhere: every strengthening widened the specification's state/action space or the driver's input/history "
           "space and the same oracles decide.\n\n" % (len(rows), n_first, n_later, n_open))
text = open(os.path.join(V, "DESIGN.md")).read()
head = "### 17.2 Independently seeded changes"
i = text.index(head)
new = head + """

Each change below was written by a fresh sub-agent that was given only the text of one property and its own
scratch worktree of /repo (nothing from /verif), asked for a change that breaks the property while compiling and
passing the existing tests and that needs something specific to manifest. The lead confirmed each one in a scratch
worktree (`tools/seed_verify.py`: patch applies, touched packages compile, the demonstration fails with the change
and passes without it) and ran the registered quick check against it (`VERIF_REPO=<worktree> ./check <ID>`).
Everything is kept under `seeded/<id>/` (patch.diff, demonstration, meta.json incl. what was run and the first
VIOLATION lines). Where a change was missed at first, the responsible check was strengthened (see the per-property
As-built blocks / notes) and the change re-run; the original outcome is kept in `meta.json` under `history`.

""" + summary + """| id | property | change — what it needs to manifest | outcome — first violation reported | tier | demonstration |
|---|---|---|---|---|---|
""" + "\n".join(rows) + "\n"
open(os.path.join(V, "DESIGN.md"), "w").write(text[:i] + new)
print("rows:", len(rows))
