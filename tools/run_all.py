#!/usr/bin/env python3
"""run_all.py [--tier quick] [--seed N] [--jobs J] ID...   -> tools/run_all.<tier>.<seed>.json + stdout table"""
import argparse, concurrent.futures, json, os, subprocess, sys, time
ap = argparse.ArgumentParser()
ap.add_argument("--tier", default="quick"); ap.add_argument("--seed", default="1"); ap.add_argument("--jobs", type=int, default=2)
ap.add_argument("--out", default=None)
ap.add_argument("ids", nargs="+")
a = ap.parse_args()
V = os.path.dirname(os.path.dirname(os.path.abspath(__file__)))
def one(pid):
    t0 = time.time()
    p = subprocess.run(["./check", pid, "--tier", a.tier, "--seed", a.seed], cwd=V, stdout=subprocess.PIPE, stderr=subprocess.STDOUT)
    out = p.stdout.decode("utf-8", "replace")
    log = "/var/tmp/runall_%s_%s_%s.log" % (pid, a.tier, a.seed)
    open(log, "w").write(out)
    viol = [l for l in out.split("\n") if l.startswith("VIOLATION")]
    known = [l for l in out.split("\n") if l.startswith("KNOWN-FINDING")]
    infra = [l for l in out.split("\n") if l.startswith("INFRA-ERROR")]
    r = {"id": pid, "rc": p.returncode, "wall_s": round(time.time() - t0), "violations": len(viol), "known": len(known), "infra": infra[:1], "log": log}
    print(json.dumps(r), flush=True)
    return r
with concurrent.futures.ThreadPoolExecutor(max_workers=a.jobs) as ex:
    res = list(ex.map(one, a.ids))
json.dump(res, open(a.out or os.path.join(V, "tools", "run_all.%s.%s.json" % (a.tier, a.seed)), "w"), indent=1)
